#!/bin/bash
# Nothing is built or installed: verify the pieces the checks need are present, offline.
set -e
cd "$(dirname "$0")"
test -x /venv/bin/python
test -d "${VERIF_SQLGLOT_ROOT:-/repo}/sqlglot"
cd /tmp && /venv/bin/python -c "import sys; sys.path.insert(0, '${VERIF_SQLGLOT_ROOT:-/repo}'); import sqlglot; print('sqlglot from', sqlglot.__file__)"
command -v setarch >/dev/null && echo "setarch present" || echo "setarch absent (not required)"
mkdir -p /verif/evidence /verif/replays
echo setup ok
