"""./check selftest-determinism | selftest-mutants [ids...]   (not registered as property checks; they gate trust in the simulator)"""
import json
import os
import shutil
import subprocess
import sys
import tempfile

from sim.core import common

ENGINES = {"C18": "sim.schemasim.engine", "C08": "sim.treesim.engine", "C09": "sim.treesim.engine", "C15": "sim.histsim.engine", "C19": "sim.threadsim.engine"}


def _load_mutants():
    sys.path.insert(0, os.path.join(common.VERIF_DIR, "mutants"))
    import mutants

    return mutants.M


def _scratch():
    d = tempfile.mkdtemp(prefix="sgmut-", dir=os.environ.get("VERIF_SCRATCH", "/tmp"))
    subprocess.run(["rsync", "-a", "--exclude", "__pycache__", "/repo/sqlglot", d + "/"], check=True)
    return d


def _run_check(prop, root, runs=None, seed=0):
    env = dict(os.environ)
    env["VERIF_SQLGLOT_ROOT"] = root
    env["VERIF_SEED"] = str(seed)
    env["VERIF_KEEP_REPLAYS"] = ""
    env["VERIF_EVIDENCE_DIR"] = os.path.join(root, "evidence")
    env["VERIF_REPLAY_DIR"] = os.path.join(root, "replays")
    if runs:
        env["VERIF_RUNS"] = str(runs)
    p = subprocess.run([os.path.join(common.VERIF_DIR, "check"), prop, "--tier", "quick"], cwd=common.VERIF_DIR, env=env, capture_output=True, text=True, timeout=3000)
    viol = [l for l in p.stdout.splitlines() if l.startswith("VIOLATION")]
    first = next((l for l in p.stdout.splitlines() if " violation [" in l), "")
    return p.returncode, len(viol), first[:260]


def mutants_main(only):
    muts = _load_mutants()
    if only:
        muts = [m for m in muts if m["id"] in only or m["prop"] in only]
    results = []
    ok = True
    for m in muts:
        d = _scratch()
        try:
            path = os.path.join(d, m["file"])
            s = open(path).read()
            if s.count(m["old"]) != 1:
                print("MUTANT %s: edit site not found exactly once in %s (count=%d)" % (m["id"], m["file"], s.count(m["old"])))
                results.append({"id": m["id"], "applied": False})
                ok = False
                continue
            s = s.replace(m["old"], m["new"])
            if m["id"] == "M19d":
                s = s.replace("class TokenizerCore", "_SHARED_TOKENS: list = []\n\n\nclass TokenizerCore", 1)
            open(path, "w").write(s)
            t0 = common.now()
            code, nviol, first = _run_check(m["prop"], d, m.get("runs"))
            wall = common.now() - t0
            detected = code == 1 and nviol > 0
            ok = ok and detected
            print("MUTANT %s %s: %s (exit=%d, %d violation lines, %.0fs) %s" % (m["id"], m["prop"], "DETECTED" if detected else "MISSED", code, nviol, wall, first))
            results.append({"id": m["id"], "prop": m["prop"], "detected": detected, "exit": code, "wall_s": round(wall, 1), "note": m["note"], "first": first})
        finally:
            shutil.rmtree(d, ignore_errors=True)
        sys.stdout.flush()
    with open(os.path.join(common.VERIF_DIR, "mutants", "last_result.json"), "w") as fh:
        json.dump(results, fh, indent=1)
    print("selftest-mutants: %d/%d detected" % (sum(1 for r in results if r.get("detected")), len(results)))
    return 0 if ok else 1


def determinism_main(tier):
    """Larger determinism self-test: many run seeds per engine, each executed in two different pool workers and in a
    fresh interpreter under another PYTHONHASHSEED; at two worker counts. Outcome digests must be identical."""
    from sim.core import driver

    n = {"C18": 400, "C08": 160, "C09": 160, "C15": 24, "C19": 16}
    if tier == "thorough":
        n = {k: v * 4 for k, v in n.items()}
    ok = True
    for prop, eng in sorted(ENGINES.items()):
        for workers in (4, 16):
            driver.WORKERS = workers
            r = driver.determinism_selftest(eng, prop, "quick", common.env_seed(), n[prop])
            print("selftest-determinism %s workers=%d: runs=%d executions=%d ok=%s %s" % (prop, workers, r["runs"], r.get("executions", 0), r["ok"], r.get("mismatching_indices") or ""))
            ok = ok and r["ok"]
            sys.stdout.flush()
    return 0 if ok else 1


def main(target, tier, seed):
    if target == "selftest-determinism":
        return determinism_main(tier)
    if target.startswith("selftest-mutants"):
        only = [x for x in os.environ.get("VERIF_MUTANTS", "").split(",") if x]
        return mutants_main(only)
    print("unknown selftest %s" % target)
    return 2
