"""histsim child: executes one process lifetime (a history of calls) from the cold template state.

Runs inside a freshly forked child of a template: sqlglot is imported, no dialect is loaded, nothing has been called.
Returns the canonical output of every step. Nothing here draws randomness; the history is fully in the request.
"""
import gc
import os
import sys

SCHEMAS = {
    "xyz": {"x": {"a": "INT", "b": "INT"}, "y": {"b": "INT", "c": "INT"}, "z": {"a": "INT", "c": "TEXT"}, "w": {"d": "TEXT", "e": "DATE"},
            "mixed": {"foo": "INT", "Bar": "INT", "BAZ": "TEXT"}},
    "fixture": {"x": {"a": "INT", "b": "INT"}, "y": {"b": "INT", "c": "INT"}, "z": {"b": "INT", "c": "INT"}, "w": {"d": "TEXT", "e": "TEXT"}},
    "none": None,
    # two databases holding a table of the same name: the unqualified name is ambiguous (lookups raise or return None
    # depending on who asks), the qualified names and "u" are not
    "amb": {"sales": {"t": {"a": "INT", "b": "TEXT"}, "u": {"a": "INT"}}, "staging": {"t": {"a": "INT", "c": "DATE"}}},
}


def _canon_tokens(toks):
    return [[t.token_type.name, t.text, t.line, t.col, t.start, t.end, list(t.comments)] for t in toks]


def _canon_tree(e):
    if e is None:
        return None
    return [repr(e), e.sql()]


class _LowStack:
    def __init__(self, margin):
        self.margin = margin

    def __enter__(self):
        self.old = sys.getrecursionlimit()
        if self.margin is not None:
            depth = 0
            f = sys._getframe()
            while f is not None:
                depth += 1
                f = f.f_back
            sys.setrecursionlimit(depth + self.margin)

    def __exit__(self, *a):
        sys.setrecursionlimit(self.old)
        return False


class Components:
    """Long-lived component instances of this process lifetime, created on first use and then re-used."""

    def __init__(self):
        self.objs = {}

    def get(self, kind, key, make):
        k = (kind, key)
        if k not in self.objs:
            self.objs[k] = make()
        return self.objs[k]


_INJ = {}


def _injectable(cls):
    """Subclass of a generator class with a cooperative fault point: the k-th node printed raises UnsupportedError (what
    unsupported_level=IMMEDIATE does, but at a PRNG-chosen node). Only reused generators are built from it."""
    if cls not in _INJ:
        from sqlglot.errors import UnsupportedError

        class Inj(cls):  # no __slots__: gets a __dict__ for the two counters
            def sql(self, expression, key=None, comment=True):
                d = self.__dict__
                at = d.get("_inj_at")
                if at is not None:
                    d["_inj_n"] = n = d.get("_inj_n", 0) + 1
                    if n >= at:
                        d["_inj_at"] = None
                        raise UnsupportedError("injected abort at node %d" % n)
                return super().sql(expression, key, comment)

        Inj.__name__ = cls.__name__
        Inj.__qualname__ = cls.__qualname__
        _INJ[cls] = Inj
    return _INJ[cls]


def _message(e):
    """Text of sqlglot's own errors (and of the ValueError raised for bad dialect settings): it is what the caller is shown.
    Object addresses are masked; injected faults and Python's own errors carry no message."""
    import re

    try:
        from sqlglot.errors import SqlglotError
    except Exception:
        return []
    if isinstance(e, SqlglotError) or type(e) is ValueError:
        m = str(e)
        if "injected abort" in m:
            return []
        return [re.sub(r"0x[0-9a-fA-F]+", "0x?", m)[:400]]
    return []


def _level(name):
    import sqlglot

    return getattr(sqlglot.ErrorLevel, name)


def _gen_opts(opts):
    o = dict(opts or {})
    if "unsupported_level" in o:
        o["unsupported_level"] = _level(o["unsupported_level"])
    return o


def run_step(step, comps):
    """-> canonical output (JSON-able). Raises nothing: exceptions are canonicalised as ['exc', ClassName]."""
    import sqlglot
    from sqlglot.dialects.dialect import Dialect

    op = step["op"]
    comp = step.get("comp", "fresh")
    reused = comp != "fresh"
    if step.get("exhaust_sweep"):
        # fault at EVERY depth in turn: the same call is issued once per margin and dies of stack exhaustion somewhere else each
        # time (crash-point enumeration for one call on the reused components); never judged itself, later steps are
        lo, hi, stp = step["exhaust_sweep"]
        died = 0
        inner = {k: v for k, v in step.items() if k != "exhaust_sweep"}
        for m in range(lo, hi, stp):
            r = run_step(dict(inner, exhaust=m), comps)
            died += 1 if r and r[0] == "exc" else 0
        return ["swept", died]
    sql = step.get("sql")
    read = step.get("read")
    write = step.get("write")
    if op == "gc":
        if step["how"] == "collect":
            gc.collect()
        elif step["how"] == "disable":
            gc.disable()
        else:
            gc.enable()
        return ["gc"]

    def dialect_obj(d):
        if reused and step.get("reuse_dialect", True):
            return comps.get("dialect", (comp, d), lambda: Dialect.get_or_raise(d))
        return Dialect.get_or_raise(d)

    try:
        with _LowStack(step.get("exhaust")):
            if op == "tokenize":
                dl = dialect_obj(read)
                tok = comps.get("tokenizer", (comp, read), lambda: dl.tokenizer()) if reused else dl.tokenizer()
                return ["ok", _canon_tokens(tok.tokenize(sql))]
            if op == "parse":
                dl = dialect_obj(read)
                lvl = step.get("error_level")
                kw = {"error_level": _level(lvl)} if lvl else {}
                par = comps.get("parser", (comp, read, lvl), lambda: dl.parser(**kw)) if reused else dl.parser(**kw)
                trees = par.parse(dl.tokenize(sql), sql)
                return ["ok", [_canon_tree(e) for e in trees]]
            if op == "generate":
                tree = sqlglot.parse_one(sql, read=read)
                dl = dialect_obj(write)
                opts = _gen_opts(step.get("opts"))
                key = (comp, write, tuple(sorted((step.get("opts") or {}).items())))
                if reused:
                    gen = comps.get("generator", key, lambda: _injectable(dl.generator_class)(dialect=dl, **opts))
                    gen.__dict__["_inj_n"] = 0
                    gen.__dict__["_inj_at"] = step.get("abort_at")
                else:
                    gen = dl.generator(**opts)
                return ["ok", gen.generate(tree)]
            if op == "transpile":
                if write is None:
                    write = read  # sqlglot.transpile(identity=True): no target dialect means "same as source"
                if reused:
                    rd, wr = dialect_obj(read), dialect_obj(write)
                    return ["ok", [wr.generate(e, copy=False) if e else "" for e in rd.parse(sql)]]
                return ["ok", sqlglot.transpile(sql, read=read, write=write, **_gen_opts(step.get("opts")))]
            if op == "subclass_dialect":
                # a user-defined dialect deriving from a built-in one (a documented extension point), whose generator
                # supports fewer JSON path parts and defines no TRANSFORMS of its own
                from sqlglot import exp as _exp

                parent = type(Dialect.get_or_raise(step["parent"]))
                gen = type("Generator", (parent.generator_class,), {"SUPPORTED_JSON_PATH_PARTS": {_exp.JSONPathKey, _exp.JSONPathRoot}})
                name = "Sub%s%d" % (parent.__name__, len(comps.objs))
                sub = type(name, (parent,), {"Generator": gen})
                comps.objs[("subdialect", name)] = sub
                return ["ok", [parent.__name__, "subclass defined"]]  # the class name depends on the history; the answer must not
            if op == "qualify_raw":
                from sqlglot.optimizer.qualify import qualify

                t = qualify(sqlglot.parse_one(sql, read=read), dialect=read, validate_qualify_columns=False)
                return ["ok", t.sql(read)]
            if op == "annotate_raw":
                from sqlglot.optimizer.annotate_types import annotate_types

                t = annotate_types(sqlglot.parse_one(sql, read=read), dialect=read)
                return ["ok", [[s.alias_or_name, s.type.sql(read) if s.type else None] for s in t.selects]]
            if op in ("optimize", "qualify", "annotate", "annotate_only", "lineage", "rule"):
                from sqlglot.schema import MappingSchema

                sname = step.get("schema", "xyz")
                raw = SCHEMAS[sname]
                if reused and raw is not None:
                    schema = comps.get("schema", (comp, sname, read), lambda: MappingSchema(raw, dialect=read))
                else:
                    schema = raw
                tree = sqlglot.parse_one(sql, read=read)
                if op == "optimize":
                    from sqlglot.optimizer import optimize

                    return ["ok", optimize(tree, schema=schema, dialect=read).sql(read, pretty=bool(step.get("pretty")))]
                if op == "qualify":
                    from sqlglot.optimizer.qualify import qualify

                    return ["ok", qualify(tree, schema=schema, dialect=read).sql(read)]
                if op == "annotate_only":
                    # type annotation of a tree that was not qualified first: column types are looked up leniently
                    from sqlglot.optimizer.annotate_types import annotate_types

                    t = annotate_types(tree, schema=schema, dialect=read)
                    return ["ok", [[s.alias_or_name, s.type.sql(read) if s.type else None] for s in (t.selects if hasattr(t, "selects") else [])]]
                if op == "annotate":
                    from sqlglot.optimizer.annotate_types import annotate_types
                    from sqlglot.optimizer.qualify import qualify

                    t = annotate_types(qualify(tree, schema=schema, dialect=read), schema=schema, dialect=read)
                    return ["ok", [[s.alias_or_name, s.type.sql(read) if s.type else None] for s in (t.selects if hasattr(t, "selects") else [])]]
                if op == "rule":
                    import inspect
                    import sqlglot.optimizer.optimizer as O
                    from sqlglot.optimizer.qualify import qualify

                    fn = getattr(O, step["rule"])
                    t = qualify(tree, schema=schema, dialect=read)
                    params = inspect.getfullargspec(fn).args
                    kw = {}
                    if "schema" in params:
                        kw["schema"] = schema
                    if "dialect" in params:
                        kw["dialect"] = read
                    return ["ok", fn(t, **kw).sql(read)]
                if op == "lineage":
                    from sqlglot.lineage import lineage

                    node = lineage(step["column"], tree, schema=schema, dialect=read)
                    out = []
                    for n in node.walk():
                        out.append([n.name, n.source.sql(read)[:200], n.expression.sql(read)[:200]])
                    return ["ok", out]
            raise ValueError("unknown op %r" % op)
    except RecursionError:
        return ["exc", "RecursionError"]
    except Exception as e:  # noqa
        if os.environ.get("VERIF_DEBUG_TB"):
            import traceback

            sys.stderr.write(traceback.format_exc())
            with open(os.environ["VERIF_DEBUG_TB"], "a") as fh:
                fh.write(traceback.format_exc() + "\n")
        if type(e).__name__ == "ParseError" and isinstance(getattr(e, "errors", None), list):
            # ParseError.errors is the documented, structured part of the outcome: what was found wrong, where, in which order,
            # with which excerpt of the input
            return ["exc", "ParseError", [[str(d.get(k)) for k in ("description", "line", "col", "start_context", "highlight", "end_context", "into_expression")]
                                          for d in e.errors if isinstance(d, dict)]]
        return ["exc", type(e).__name__] + _message(e)


def base_tables():
    """Public UPPER_CASE class-level containers of the BASE classes, reduced to their string members. Used to spot words that
    an earlier call (a dialect import, a failed parse) has added to a table every dialect shares; each such word is then
    turned into output probes - the oracle stays output-based."""
    import enum

    from sqlglot.dialects.dialect import Dialect
    from sqlglot.generator import Generator
    from sqlglot.parser import Parser
    from sqlglot.tokens import Tokenizer

    out = {}
    for cls in (Dialect, Parser, Generator, Tokenizer):
        for name in dir(cls):
            if not name.isupper() or name.startswith("_"):
                continue
            try:
                v = getattr(cls, name)
            except Exception:
                continue
            if isinstance(v, dict):
                items = list(v.keys())
            elif isinstance(v, (set, frozenset, list, tuple)):
                items = list(v)
            else:
                continue
            words = sorted(set(x for x in items if isinstance(x, str) and 0 < len(x) <= 24 and x.replace("_", "").isalnum()))
            if words or not items:
                out["%s.%s" % (cls.__name__, name)] = words
    return out


def leak_probes(cold):
    from sim.corpus import corpus

    now = base_tables()
    new_words = []
    for table, words in sorted(now.items()):
        base = set(cold.get(table, []))
        for w in words:
            if w not in base and (table, w) not in new_words:
                new_words.append((table, w))
    probes = []
    for table, w in new_words[:6]:
        for tpl in corpus.VOCAB_TEMPLATES:
            for d in (None, "postgres"):
                call = {"op": "transpile", "sql": tpl.format(w=w.lower()), "read": d, "write": d}
                probes.append({"table": table, "word": w, "call": call, "output": run_step(dict(call, comp="fresh"), Components())})
    return probes, len(new_words)


def run(req):
    if req.get("mode") == "tables":
        return {"tables": base_tables()}
    rec = req["record"]
    cfg = rec.get("config", {})
    garbage = None
    if cfg.get("garbage"):
        # address-space perturbation: shifts every later allocation, so output ordered by id()/address would change
        garbage = [bytearray(64 + (i % 7)) for i in range(int(cfg["garbage"]))]
    if cfg.get("gc") == "disabled":
        gc.disable()
    sys.setrecursionlimit(max(sys.getrecursionlimit(), 3000))
    comps = Components()
    outs = []
    for step in rec["steps"]:
        outs.append(run_step(step, comps))
    probes, n_new = ([], 0)
    if req.get("cold_tables") is not None:
        probes, n_new = leak_probes(req["cold_tables"])
    import sqlglot.dialects.dialect as dd

    loaded = sorted(k for k in dd.Dialect._classes if k)
    del garbage
    return {"outputs": outs, "leak_probes": probes, "new_base_table_words": n_new, "dialects_loaded_in_order": [m.split(".")[-1] for m in sys.modules if m.startswith("sqlglot.dialects.") and m.count(".") == 2][:60], "classes": loaded}
