"""histsim — C15: results are deterministic and independent of earlier calls.

System under simulation: a *process lifetime*. A child forked from a cold template started under a generated
PYTHONHASHSEED executes a generated history of calls (fresh module-level API or long-lived reused Tokenizer / Parser /
Generator / Dialect / MappingSchema instances), with faults: earlier steps that fail on a component reused afterwards,
injected stack exhaustion, gc perturbation, address-space perturbation, hash-seed change, cold dialect import order.
Oracle: every step must produce byte-for-byte what the same call produces ALONE, with fresh components, in its own cold
process (reference computed under two different hash seeds, which must agree with each other as well).
"""
import json
import random

from sim.core import common
from sim.core.forkserver import TemplatePool
from sim.corpus import corpus

PROPS = ["C15"]
RULE = (
    "one run = one process lifetime: hash seed drawn from K seeds, optional garbage pre-allocation / gc mode, then 3-40 steps drawn from a "
    "per-seed call pool (hot subset favoured so that steps share dialects and components). signature = hash(hash seed, ordered step "
    "signatures with component kinds). non-trivial = at least two steps share a dialect or a reused component instance, or a step runs "
    "after an earlier failing step on the same reused component."
)
COMPONENTS = {
    "real": ["all of sqlglot, imported cold in a forked child per history (tokenizer, parser, generator, all dialect modules, optimizer rules, lineage, schema)"],
    "stub": [],
}
ASSUMPTIONS = [
    "reference = the same call alone with fresh components in a cold child; computed under hash seeds 0 and 4242 which must agree",
    "outcomes of failing calls: exception class; for ParseError the structured errors (description, line, col, context excerpts) in order; for sqlglot's other errors and for ValueError (bad dialect settings) the message text with addresses masked",
    "asynchronous cancellation is not injected; stack exhaustion is (RecursionError at a PRNG-chosen margin) and only the steps AFTER it are judged",
    "ASLR is disabled for templates when `setarch -R` works; address perturbation is injected explicitly instead",
]

HASHSEEDS_QUICK = [0, 1, 2, 3]
REF_SEEDS = (0, 4242)
WRITE_DIALECTS = ["duckdb", "snowflake", "bigquery", "postgres", "spark", "tsql", "mysql", "presto", "trino", "hive", "clickhouse", "oracle", "redshift", "sqlite",
                  "databricks", "starrocks", "doris", "athena", "teradata", "exasol", "singlestore", "risingwave", "materialize", "fabric", "dremio", "drill", None]
RULES = ["pushdown_projections", "normalize", "unnest_subqueries", "pushdown_predicates", "optimize_joins", "eliminate_subqueries", "merge_subqueries",
         "eliminate_joins", "eliminate_ctes", "canonicalize", "simplify"]

_POOL = {}
_GROUPS = {}
_REFS = {}
_COLD = {}


def plan(prop, tier):
    if tier == "thorough":
        return {"run_timeout": 1200, "mem_cap_gb": 0, "runs": 12000, "chunk": 100, "wall_cap": 1800, "selftest": 48, "shrink_wall": 900, "max_shrunk": 16}
    return {"run_timeout": 1200, "mem_cap_gb": 0, "runs": 1200, "chunk": 25, "wall_cap": 300, "selftest": 12, "shrink_wall": 300, "max_shrunk": 12}


def hashseeds(tier):
    return HASHSEEDS_QUICK if tier == "quick" else list(range(32))


# --------------------------------------------------------------------------- call pool


def _gen_query(rng):
    preds = ["x.a = 1", "x.b > 2", "y.c < 3", "x.b = y.b", "z.a = x.a", "x.a = x.a", "NOT x.a = 1", "y.b IN (1, 2, 3)", "z.c LIKE 'k%'", "x.a + 1 > y.c", "y.c IS NULL", "TRUE", "1 = 1",
             "x.b = 2", "x.a <> 1", "(x.a = 1 OR y.c < 3)", "x.b BETWEEN 1 AND 5", "COALESCE(y.c, 0) = 0"]
    multi = ["y.c + z.a = x.b", "x.a + y.b + z.a > 0", "y.b = z.a + x.b", "x.a = z.a + y.c", "z.c = CONCAT(x.a, y.c)", "y.b + z.c = w.e", "x.a = w.d AND y.b = z.a"]
    k = rng.randint(3, 7)
    ps = [rng.choice(preds) for _ in range(k)]
    if rng.random() < 0.5:
        ps += rng.sample(multi, rng.randint(1, 3))  # conjuncts that mention three tables: several joins compete for them
        rng.shuffle(ps)
    if rng.random() < 0.5:
        ps.append(ps[0])  # duplicate operand
    conn = rng.choice([" AND ", " AND ", " OR "])
    where = conn.join(ps)
    if rng.random() < 0.4:
        where = "(%s) AND (%s)" % (where, " OR ".join(rng.sample(preds, 3)))
    shape = rng.randrange(7)
    if shape == 5:
        return "SELECT x.a FROM x, y, z, w WHERE %s" % where
    if shape == 6:
        on = " AND ".join(rng.sample(multi, 2) + [rng.choice(preds)])
        return "SELECT * FROM x CROSS JOIN y CROSS JOIN z JOIN w ON %s" % on
    if shape == 0:
        return "SELECT x.a, y.c FROM x JOIN y ON x.b = y.b JOIN z ON z.a = x.a WHERE %s" % where
    if shape == 1:
        return "SELECT * FROM x, y, z WHERE %s" % where
    if shape == 2:
        return "WITH c1 AS (SELECT a, b FROM x), c2 AS (SELECT a, b FROM x), c3 AS (SELECT b, c FROM y) SELECT c1.a, c3.c FROM c1 JOIN c2 ON c1.a = c2.a JOIN c3 ON c3.b = c1.b WHERE c1.a = 1 OR c1.a = 1 OR c3.c < 3"
    if shape == 3:
        return "SELECT x.a, (SELECT MAX(y.c) FROM y WHERE y.b = x.b) AS m FROM x JOIN z ON z.a = x.a WHERE %s ORDER BY 1" % where.replace("y.c", "x.b").replace("y.b", "x.b")
    return "SELECT s.a, COUNT(*) AS n FROM (SELECT x.a, y.c FROM x JOIN y ON x.b = y.b WHERE %s) AS s GROUP BY s.a HAVING COUNT(*) > 1" % where


def build_pool(seed, tier):
    key = (seed, tier)
    if key in _POOL:
        return _POOL[key]
    rng = random.Random(common.derive_seed("C15-pool", seed, 0))
    n = 360 if tier == "quick" else 2400
    ext = corpus.extracted(max_len=200)
    fixq = corpus.optimizer_fixture_queries(max_len=300)
    idf = corpus.fixtures(max_len=200)
    calls = []

    hot_writes = rng.sample([w for w in WRITE_DIALECTS if w], 5)
    hot_opts = [{}, {}, {"unsupported_level": "RAISE"}, {"pretty": True}, {"identify": True}, {"identify": "safe"}, {"identify": "safe"},
                {"identify": True, "unsupported_level": "IMMEDIATE"}]

    def with_settings(d):
        # the same dialect CLASS with different instance settings: state keyed by class only would leak between them
        if d and rng.random() < 0.12:
            return "%s, normalization_strategy=%s" % (d, rng.choice(["lowercase", "uppercase", "case_sensitive", "case_insensitive"]))
        return d

    def pick_write():
        return with_settings(rng.choice(hot_writes) if rng.random() < 0.7 else rng.choice(WRITE_DIALECTS))

    def pick_stmt():
        r = rng.random()
        if r < 0.15:
            return rng.choice(corpus.STATEFUL)
        if r < 0.22:
            return (rng.choice([None, None, "postgres", "snowflake", "duckdb", "oracle"]), rng.choice(corpus.SOFT_KEYWORDS))
        if r < 0.34:
            return (rng.choice([None, None, "postgres", "snowflake", "duckdb", "mysql", "bigquery", "spark", "tsql", "presto", "clickhouse", "oracle", "redshift"]), corpus.vocab_statement(rng))
        if ext and r < 0.6:
            return ext[rng.randrange(len(ext))]
        if idf and r < 0.8:
            return idf[rng.randrange(len(idf))]
        return rng.choice(corpus.GENERAL)

    while len(calls) < n:
        r = rng.random()
        if r < 0.22:
            d, s = pick_stmt()
            calls.append({"op": "transpile", "sql": s, "read": d, "write": pick_write()})
        elif r < 0.44:
            d, s = pick_stmt()
            if rng.random() < 0.7:
                opts = dict(rng.choice(hot_opts))
            else:
                opts = {}
                for o, v in (("pretty", True), ("identify", True), ("normalize", True), ("unsupported_level", rng.choice(["RAISE", "IMMEDIATE", "IGNORE"])), ("comments", False)):
                    if rng.random() < 0.3:
                        opts[o] = v
            calls.append({"op": "generate", "sql": s, "read": d, "write": pick_write(), "opts": opts})
        elif r < 0.50:
            d, s = pick_stmt() if rng.random() < 0.8 else rng.choice(corpus.FAILING)
            calls.append({"op": "tokenize", "sql": s, "read": d})
        elif r < 0.62:
            d, s = pick_stmt() if rng.random() < 0.7 else rng.choice(corpus.FAILING)
            calls.append({"op": "parse", "sql": s, "read": d, "error_level": rng.choice([None, "IMMEDIATE", "RAISE", "WARN", "IGNORE"])})
        elif r < 0.70:
            # qualification / star expansion of arbitrary corpus statements, no schema (column sets iterate in many places)
            d, s = pick_stmt() if rng.random() < 0.6 else rng.choice(corpus.GENERAL)
            calls.append({"op": "qualify_raw", "sql": s, "read": d})
        else:
            src = rng.random()
            if src < 0.12:
                d, s, sch = None, rng.choice(corpus.TYPED), "none"
            elif src < 0.3:
                d, s, sch = None, _gen_query(rng), "xyz"
            elif src < 0.45:
                # the shared query grammar: derived tables / CTEs that join, correlated subqueries over several outer columns, DNF filters
                d, s, sch = None, corpus.gen_schema_query(rng), "xyz"
            elif src < 0.65:
                d, s, sch = None, rng.choice(corpus.SCHEMA_QUERIES), "xyz"
            elif fixq:
                d, s = fixq[rng.randrange(len(fixq))]
                sch = "fixture"
            else:
                d, s, sch = None, rng.choice(corpus.SCHEMA_QUERIES), "xyz"
            if d is None and rng.random() < 0.3:
                d = with_settings(rng.choice(["duckdb", "snowflake", "bigquery", "postgres", "spark", "mysql", "tsql"]))
            k = rng.random()
            if sch == "none":
                calls.append({"op": "annotate_raw", "sql": s, "read": d})
            elif k < 0.45:
                calls.append({"op": "optimize", "sql": s, "read": d, "schema": sch, "pretty": rng.random() < 0.2})
            elif k < 0.6:
                calls.append({"op": "qualify", "sql": s, "read": d, "schema": sch})
            elif k < 0.7:
                calls.append({"op": "annotate", "sql": s, "read": d, "schema": sch})
            elif k < 0.9:
                calls.append({"op": "rule", "rule": rng.choice(RULES), "sql": s, "read": d, "schema": sch})
            else:
                import re

                aliases = re.findall(r" AS ([a-z_][a-z0-9_]*)\b", s) or ["a"]
                calls.append({"op": "lineage", "sql": s, "read": d, "schema": sch, "column": rng.choice(aliases)})
    # Systematic part: every hand-written statement gets at least one call (op rotating with the pool seed), so that no
    # needle statement depends on being drawn by chance; lineage of every aliased projection of the schema queries.
    import re

    special = corpus.GENERAL + corpus.STATEFUL + [(None, q) for q in corpus.SCHEMA_QUERIES]
    rot = rng.randrange(4)
    for i, (d, q) in enumerate(special):
        if q in set(x for _, x in corpus.FAILING):
            continue
        kind = (i + rot) % 3 + 1
        calls.append({"op": "qualify_raw", "sql": q, "read": d})
        calls.append({"op": "parse", "sql": q, "read": d, "error_level": None})
        if kind == 1:
            calls.append({"op": "transpile", "sql": q, "read": d, "write": pick_write()})
        elif kind == 2:
            calls.append({"op": "generate", "sql": q, "read": d, "write": pick_write(), "opts": dict(rng.choice(hot_opts))})
        else:
            calls.append({"op": "parse", "sql": q, "read": d, "error_level": None})
    subclass_groups = []
    for parent in ("postgres", "duckdb", "mysql", "snowflake", "spark"):
        members = [{"op": "subclass_dialect", "parent": parent}]
        for d, q in corpus.stateful_families().get("jsonpath", []) + [x for x in corpus.GENERAL if "JSON_EXTRACT" in x[1]]:
            members.append({"op": "transpile", "sql": q, "read": d, "write": parent})
        calls.extend(members)
        subclass_groups.append(members)
    for q in corpus.SCHEMA_QUERIES:
        for al in re.findall(r" AS ([a-z_][a-z0-9_]*)\b", q)[:2]:
            if " FROM (" not in q and "WITH " not in q:
                calls.append({"op": "lineage", "sql": q, "read": None, "schema": "xyz", "column": al})
        calls.append({"op": "optimize" if rng.random() < 0.5 else "qualify", "sql": q, "read": None, "schema": "xyz"})

    # a schema in which an unqualified table name is ambiguous: lenient lookups (annotation) and strict ones (qualification)
    # of the same name on one reused MappingSchema
    amb = []
    for d in (None, "snowflake", "bigquery"):
        for q in ("SELECT t.a FROM t AS t", "SELECT * FROM t", "SELECT a FROM t", "SELECT u.a, t.b FROM sales.u AS u JOIN sales.t AS t ON u.a = t.a", "SELECT * FROM staging.t"):
            amb.append({"op": "annotate_only", "sql": q, "read": d, "schema": "amb"})
            amb.append({"op": rng.choice(["qualify", "optimize"]), "sql": q, "read": d, "schema": "amb"})
    calls.extend(amb)
    for d, q, col, sch in corpus.LINEAGE_CASES:
        calls.append({"op": "lineage", "sql": q, "read": d, "schema": sch, "column": col})
    for q in corpus.MIXED_CASE:
        calls.append({"op": "optimize", "sql": q, "read": None, "schema": "none", "pretty": False})
        calls.append({"op": "rule", "rule": "pushdown_projections", "sql": q, "read": None, "schema": "none"})
    for q in corpus.MERGE_CONFLICTS:
        calls.append({"op": "optimize", "sql": q, "read": None, "schema": "xyz", "pretty": False})
        calls.append({"op": "rule", "rule": "merge_subqueries", "sql": q, "read": None, "schema": "xyz"})
    for bad in corpus.BAD_SETTINGS:
        calls.append({"op": "transpile", "sql": "SELECT 1", "read": bad, "write": None})
        calls.append({"op": "generate", "sql": "SELECT a FROM t", "read": None, "write": bad, "opts": {}})

    # Focus groups: several calls that all go to ONE component configuration (same generator class + options, same parser
    # + error level, same tokenizer), drawn from inputs that touch per-instance state. A "focus" history replays a group on
    # one reused instance, which is what makes forgotten resets observable (second call differs from a fresh instance).
    groups = []
    failing_sql = set(q for _, q in corpus.FAILING)
    stateful = corpus.STATEFUL + [(None, q) for q in corpus.SOFT_KEYWORDS] + corpus.FAILING
    # kinds, generator options, parser error levels and statement families are cycled (from a random offset), not drawn
    # independently: every option set and every family is in some group of every pool
    kinds = ["generate", "parse", "generate", "transpile", "generate", "parse", "tokenize", "generate"]
    gen_opts = [{"unsupported_level": "RAISE"}, {"identify": True}, {}, {"unsupported_level": "IMMEDIATE"}, {"identify": "safe"}, {"pretty": True},
                {"identify": True, "unsupported_level": "IMMEDIATE"}, {"unsupported_level": "RAISE", "pretty": True}]
    levels = ["WARN", None, "IGNORE", "RAISE", "IMMEDIATE", "WARN"]
    fam_names = sorted(corpus.stateful_families())
    off = rng.randrange(64)
    for _gi in range(20 if tier == "quick" else 80):
        kind = kinds[(_gi + off) % len(kinds)]
        two_fams = [fam_names[(_gi + off) % len(fam_names)], fam_names[(3 * _gi + off + 1) % len(fam_names)]]
        members = []
        if kind == "generate":
            w = with_settings(rng.choice(hot_writes))
            opts = dict(gen_opts[(_gi // 2 + off) % len(gen_opts)])
            srcs = [x for x in corpus.STATEFUL + corpus.GENERAL if x[1] not in failing_sql]
            fams = corpus.stateful_families()
            picked = [x for f in two_fams for x in fams[f]]
            for d, q in picked + rng.sample(srcs, 3):
                if q not in failing_sql:
                    members.append({"op": "generate", "sql": q, "read": d, "write": w, "opts": opts})
        elif kind == "parse":
            rd = rng.choice([None, "bigquery", "snowflake", "duckdb", "postgres", "spark", "oracle", "tsql", "mysql"])
            lvl = levels[(_gi + off) % len(levels)]
            fams = corpus.stateful_families()
            picked = [x for f in two_fams for x in fams[f]]
            own = rng.random() < 0.5  # parse every statement in its own dialect (several reused parsers) or all in one
            for d, q in picked + rng.sample(corpus.FAILING, 3):
                members.append({"op": "parse", "sql": q, "read": d if own else rd, "error_level": lvl})
        elif kind == "tokenize":
            rd = rng.choice([None, "bigquery", "snowflake", "duckdb", "postgres", "mysql", "tsql"])
            lexical = [x for x in corpus.FAILING if "unterminated" in x[1]]  # inputs the tokenizer itself rejects
            for d, q in lexical + rng.sample(stateful, 6):
                members.append({"op": "tokenize", "sql": q, "read": rd})
        else:
            rd = rng.choice(["bigquery", "snowflake", "duckdb", "postgres", "spark", "mysql"])
            w = rng.choice(hot_writes)
            for d, q in rng.sample(stateful, 8):
                members.append({"op": "transpile", "sql": q, "read": rd, "write": w})
        groups.append(members)
        calls.extend(members)
    # one reused-parser group per statement family (its failing members included), so that no family depends on the cycling above
    # to meet a reused Parser: every statement in its own dialect, error level cycling
    lenient = ["WARN", "IGNORE", "RAISE"]  # levels at which a parser keeps going: the ones a leaked IMMEDIATE would change
    for _fi, (fname, lvl) in enumerate([(f_, levels[(i_ + off) % len(levels)]) for i_, f_ in enumerate(fam_names)] +
                                       [(f_, lenient[(i_ + off) % 3]) for i_, f_ in enumerate(fam_names)]):
        fam_ = corpus.stateful_families()[fname]
        members = [{"op": "parse", "sql": q, "read": d, "error_level": lvl} for d, q in fam_]
        # failing inputs are read in the dialects of the family's own members, so that they meet the same reused Parser objects
        fds = sorted({d for d, _ in fam_}, key=str)
        for j_, (d, q) in enumerate(rng.sample(corpus.FAILING, 4)):
            members.append({"op": "parse", "sql": q, "read": fds[j_ % len(fds)] if d is None else d, "error_level": lvl})
        groups.append(members)
        calls.extend(members)
    for d in (None, "snowflake", "bigquery"):
        groups.append([c for c in amb if c["read"] == d])
    groups.extend(subclass_groups)  # "define a dialect deriving from P, then generate for P" as focus groups of their own
    # Settings groups: ONE dialect class under several instance settings, the same mixed-case identifiers through every path that
    # consults the settings (safe quoting, qualification, star expansion, normalisation). State keyed by class, name or text alone
    # leaks between the variants.
    strategies = ["lowercase", "uppercase", "case_sensitive", "case_insensitive"]
    classes = ["snowflake", "postgres", "duckdb", "bigquery", "mysql", "oracle", "tsql", "spark", "clickhouse", "presto", "redshift", "sqlite"]
    for _si in range(6 if tier == "quick" else 24):
        dcls = classes[(_si + off) % len(classes)]
        variants = [dcls] + ["%s, normalization_strategy=%s" % (dcls, st_) for st_ in rng.sample(strategies, 2)]
        members = []
        for q in rng.sample(corpus.MIXED_CASE, 3):
            for v in variants:
                members.append({"op": "generate", "sql": q, "read": None, "write": v, "opts": {"identify": "safe"}})
                k = rng.randrange(4)
                if k == 0:
                    members.append({"op": "qualify", "sql": q, "read": v, "schema": "xyz"})
                elif k == 1:
                    members.append({"op": "optimize", "sql": q, "read": v, "schema": "xyz", "pretty": False})
                elif k == 2:
                    members.append({"op": "qualify_raw", "sql": q, "read": v})
                else:
                    members.append({"op": "generate", "sql": q, "read": v, "write": v, "opts": {}})
        groups.append(members)
        calls.extend(members)
    _POOL[key] = calls
    _GROUPS[key] = groups
    return calls


def call_sig(step):
    c = {k: v for k, v in step.items() if k not in ("comp", "exhaust", "exhaust_sweep", "reuse_dialect", "abort_at")}
    return common.short_hash(c, 10)


# --------------------------------------------------------------------------- reference table


def _alone(call, tp, hashseed):
    step = {k: v for k, v in call.items() if k not in ("comp", "exhaust", "exhaust_sweep", "reuse_dialect", "abort_at")}
    step["comp"] = "fresh"
    r = tp.run(hashseed, {"record": {"config": {}, "steps": [step]}}, timeout=120)
    if "outputs" not in r:
        return ["harness", json.dumps(r)[:300]]
    return r["outputs"][0]


def reference(call, tp):
    """-> (output, None) or (None, violation-ish dict) when the two hash seeds disagree."""
    sig = call_sig(call)
    if sig in _REFS:
        return _REFS[sig]
    a = _alone(call, tp, REF_SEEDS[0])
    b = _alone(call, tp, REF_SEEDS[1])
    _REFS[sig] = (a, b)
    return _REFS[sig]


def _prepare_chunk(calls):
    tp = TemplatePool("histsim")
    out = {}
    try:
        for c in calls:
            sig = call_sig(c)
            out[sig] = (_alone(c, tp, REF_SEEDS[0]), _alone(c, tp, REF_SEEDS[1]))
    finally:
        tp.close()
    return out


def prepare(prop, tier, seed):
    """Called once in the parent before the worker pool is forked: fills the reference table for the call pool."""
    import concurrent.futures as cf
    import multiprocessing

    from sim.core import driver

    pool = build_pool(seed, tier)
    uniq = {}
    for c in pool:
        uniq.setdefault(call_sig(c), c)
    calls = list(uniq.values())
    w = driver.WORKERS
    chunks = [calls[i::w] for i in range(w)]
    with cf.ProcessPoolExecutor(max_workers=w, mp_context=multiprocessing.get_context("fork")) as ex:
        for part in ex.map(_prepare_chunk, chunks):
            _REFS.update(part)
    tp = TemplatePool("histsim")
    try:
        cold_tables(tp)
    finally:
        tp.close()
    # every pool call whose two cold references (hash seeds 0 and 4242) disagree is judged as a 1-step history of its own,
    # whether or not a generated history happens to draw it
    extra = []
    for c in calls:
        a, b = _REFS.get(call_sig(c), (None, None))
        if a != b and a is not None and a[0] != "harness" and b[0] != "harness":
            extra.append({"engine": "histsim", "config": {"hashseed": REF_SEEDS[1], "faults": []}, "steps": [dict(c, comp="fresh")]})
    return {"reference_calls": len(calls), "reference_executions": 2 * len(calls), "cold_base_tables": len(_COLD.get("tables", {})),
            "calls_whose_cold_references_disagree": len(extra), "extra_records": extra[:40]}


def cold_tables(tp):
    if "tables" not in _COLD:
        r = tp.run(0, {"mode": "tables"}, timeout=120)
        if "tables" not in r:
            raise common.HarnessError("cannot read cold base tables: %s" % json.dumps(r)[:300])
        _COLD["tables"] = r["tables"]
    return _COLD["tables"]


# --------------------------------------------------------------------------- driver interface


def worker_init(prop, tier):
    return {"tp": TemplatePool("histsim"), "tier": tier}


def worker_close(state):
    if state:
        state["tp"].close()


def generate(prop, run_seed, tier):
    rng = random.Random(run_seed)
    pool = build_pool(common.env_seed(), tier)
    hs = rng.choice(hashseeds(tier))
    faulted = rng.random() < 0.6
    all_faults = ["failing_step", "stack_exhaustion", "gc", "garbage", "abort_generate"]
    faults = sorted(rng.sample(all_faults, rng.randint(1, len(all_faults)))) if faulted else []
    cfg = {"hashseed": hs, "faults": faults,
           "garbage": rng.choice([1000, 20000, 150000]) if "garbage" in faults else 0,
           "gc": "disabled" if ("gc" in faults and rng.random() < 0.3) else "default"}
    hot = [pool[rng.randrange(len(pool))] for _ in range(rng.randint(3, 12))]
    groups = _GROUPS.get((common.env_seed(), tier)) or []
    focus = groups[rng.randrange(len(groups))] if groups and rng.random() < 0.4 else None
    failing = [c for c in pool if c["op"] in ("parse", "tokenize") and (c["read"], c["sql"]) in [(d, s) for d, s in corpus.FAILING]]
    n = rng.randint(3, 30 if tier == "quick" else 60)
    reuse_p = rng.choice([0.0, 0.3, 0.6, 0.9])
    # half of the focus histories are fault-heavy: one step in four dies of stack exhaustion at a PRNG-chosen depth, i.e. somewhere
    # inside whatever the component was doing (a speculative sub-parse, a nested generator call) - the later steps are judged
    ex_rate = 0.25 if (focus is not None and rng.random() < 0.5) else 0.06
    steps = []
    for _ in range(n):
        if "gc" in faults and rng.random() < 0.05:
            steps.append({"op": "gc", "how": rng.choice(["collect", "collect", "disable", "enable"])})
            continue
        if "failing_step" in faults and rng.random() < 0.12 and rng.random() < 0.4:
            # a valid statement cut short at a token boundary: fails in the middle of whatever construct it was in
            src = dict(hot[rng.randrange(len(hot))] if rng.random() < 0.5 else pool[rng.randrange(len(pool))])
            words = (src.get("sql") or "SELECT a").split(" ")
            cut = " ".join(words[: max(1, rng.randrange(1, len(words) + 1))])
            c = {"op": rng.choice(["parse", "transpile"]), "sql": cut, "read": src.get("read"), "write": src.get("write") or src.get("read")}
            if c["op"] == "parse":
                c["error_level"] = rng.choice([None, "RAISE", "IMMEDIATE"])
                c.pop("write")
        elif "failing_step" in faults and rng.random() < 0.12:
            base = dict(rng.choice(failing)) if failing and rng.random() < 0.5 else {"op": rng.choice(["parse", "generate", "transpile"]), "sql": rng.choice(corpus.FAILING)[1], "read": rng.choice([None, "bigquery", "duckdb"]), "write": "duckdb"}
            if base["op"] == "parse":
                base.setdefault("error_level", rng.choice([None, "RAISE", "IMMEDIATE"]))
            c = base
        elif focus is not None and rng.random() < 0.8:
            c = dict(focus[rng.randrange(len(focus))])
            c["comp"] = "reused:0"
            if "stack_exhaustion" in faults and rng.random() < ex_rate:
                if ex_rate > 0.1 and c["op"] in ("parse", "generate", "tokenize") and rng.random() < 0.5:
                    c["exhaust_sweep"] = [8, rng.choice([60, 100]), rng.choice([1, 2, 3])]
                else:
                    c["exhaust"] = rng.randrange(10, 120)
            if "abort_generate" in faults and c["op"] == "generate" and rng.random() < 0.4:
                c["abort_at"] = rng.randrange(1, 48)
            steps.append(c)
            continue
        else:
            c = dict(hot[rng.randrange(len(hot))] if rng.random() < 0.75 else pool[rng.randrange(len(pool))])
        if rng.random() < reuse_p:
            c["comp"] = "reused:%d" % rng.randrange(2)
        else:
            c["comp"] = "fresh"
        if "stack_exhaustion" in faults and rng.random() < 0.06:
            c["exhaust"] = rng.randrange(10, 120)
        if "abort_generate" in faults and c.get("op") == "generate" and c["comp"] != "fresh" and rng.random() < 0.35:
            c["abort_at"] = rng.randrange(1, 48)
        steps.append(c)
    return {"engine": "histsim", "config": cfg, "steps": steps}


def shrink_axes(rec):
    return [("steps", "steps")]


def _dialects_of(step):
    return set(x for x in (step.get("read"), step.get("write")) if x) | ({"base"} if step.get("read") is None else set())


def execute(record, state):
    tp = state["tp"]
    cfg = record["config"]
    steps = record["steps"]
    faults = {"failing_step": 0, "abort_generate_armed": 0, "abort_generate": 0, "stack_exhaustion_armed": 0, "stack_exhaustion": 0, "gc_op": 0, "garbage_prealloc": 1 if cfg.get("garbage") else 0,
              "hashseed_nonzero": 1 if cfg.get("hashseed") else 0}
    probes = {"reused_after_error": 0, "reused_steps": 0, "steps_sharing_dialect": 0, "commutative_inputs": 0, "ref_exception_steps": 0}
    r = tp.run(cfg.get("hashseed", 0), {"record": record, "cold_tables": cold_tables(tp)}, timeout=150)
    if r.get("timeout"):
        return {"aborted": "wall-timeout"}  # load-dependent, never an oracle; discarded and counted by the driver
    if "outputs" not in r:
        raise common.HarnessError("child failed: %s" % json.dumps(r)[:500])
    outs = r["outputs"]
    violation = None
    seen_dialects = set()
    comp_failed = set()
    comp_seen = set()
    nontrivial = False
    sigs = []
    for i, (step, got) in enumerate(zip(steps, outs)):
        if step["op"] == "gc":
            faults["gc_op"] += 1
            sigs.append("gc")
            continue
        comp = step.get("comp", "fresh")
        ckey = (comp, step["op"], step.get("read"), step.get("write"))
        sigs.append(call_sig(step) + ":" + comp)
        ds = _dialects_of(step)
        if ds & seen_dialects:
            probes["steps_sharing_dialect"] += 1
            nontrivial = True
        seen_dialects |= ds
        if comp != "fresh":
            probes["reused_steps"] += 1
            if ckey in comp_seen:
                nontrivial = True
            if ckey in comp_failed:
                probes["reused_after_error"] += 1
                nontrivial = True
            comp_seen.add(ckey)
        if (step.get("sql") or "").count(" AND ") + (step.get("sql") or "").count(" OR ") >= 3:
            probes["commutative_inputs"] += 1
        a, b = reference(step, tp)
        if a != b:
            violation = {"oracle": "O-hashseed-alone", "cls": step["op"], "step": i,
                         "detail": "the call alone in a cold process gives different output under PYTHONHASHSEED=%d and %d: %s vs %s" % (REF_SEEDS[0], REF_SEEDS[1], _short(a), _short(b))}
            break
        if a[0] == "harness":
            raise common.HarnessError("reference failed: %s" % a[1])
        if a[0] == "exc":
            probes["ref_exception_steps"] += 1
        if got[0] == "exc":
            if comp != "fresh":
                comp_failed.add(ckey)
            if a[0] == "exc":
                faults["failing_step"] += 1
        if step.get("abort_at") is not None:
            faults["abort_generate_armed"] += 1
            if got != a:
                faults["abort_generate"] += 1
                comp_failed.add(ckey)
            continue  # the injected abort itself is not judged
        if step.get("exhaust_sweep"):
            faults["stack_exhaustion_armed"] += len(range(*step["exhaust_sweep"]))
            faults["stack_exhaustion"] += got[1] if isinstance(got, list) and len(got) > 1 and isinstance(got[1], int) else 0
            if comp != "fresh":
                comp_failed.add(ckey)
            continue
        if step.get("exhaust") is not None:
            # The injected fault itself is never judged (sqlglot may surface the RecursionError as one of its own
            # errors, e.g. TokenError); what is judged is every step that follows on the same components.
            faults["stack_exhaustion_armed"] += 1
            if got != a:
                faults["stack_exhaustion"] += 1
                if comp != "fresh":
                    comp_failed.add(ckey)
            continue
        if got != a:
            violation = {"oracle": "O-reused" if comp != "fresh" else "O-history", "cls": "%s/%s" % (step["op"], comp.split(":")[0]), "step": i,
                         "detail": "step %d %s (hash seed %s) gave %s; the same call alone in a cold process gives %s" % (i, _show(step), cfg.get("hashseed"), _short(got), _short(a))}
            break
    leak_run = 0
    if violation is None:
        # words that the history added to a class-level table of a BASE class: probe them through the public API
        for pr in r.get("leak_probes", []):
            leak_run += 1
            a, b = reference(pr["call"], tp)
            if a[0] == "harness":
                raise common.HarnessError("reference failed: %s" % a[1])
            if a == b and pr["output"] != a:
                violation = {"oracle": "O-leak-probe", "cls": pr["table"], "step": len(steps) - 1,
                             "detail": "after this history %s contains %r, which a cold process does not have there; probing it: %s gives %s, alone in a cold process it gives %s" % (
                                 pr["table"], pr["word"], _show(pr["call"]), _short(pr["output"]), _short(a))}
                break
    return {
        "violation": violation,
        "digest": common.digest(outs),
        "sig": common.short_hash([cfg.get("hashseed"), sigs]),
        "nontrivial": nontrivial,
        "steps": len(outs),
        "faults": faults,
        "probes": probes,
        "population": "faulted" if cfg.get("faults") else "fault_free",
        "situations": ["import-order:" + common.short_hash(r.get("dialects_loaded_in_order", []), 4)],
        "counters": {"leak_probes_run": leak_run, "new_base_table_words": r.get("new_base_table_words", 0)},
    }


def _short(o):
    s = json.dumps(o)
    return s if len(s) < 400 else s[:400] + "..."


def _show(step):
    s = "%s[%s]" % (step["op"], step.get("comp", "fresh"))
    for k in ("rule", "read", "write", "error_level", "opts", "schema", "column", "exhaust", "exhaust_sweep", "abort_at"):
        if step.get(k) not in (None, {}, ""):
            s += " %s=%s" % (k, step[k])
    if "sql" in step:
        s += " sql=%r" % (step["sql"][:160],)
    return s


def signature(record, outcome):
    v = outcome.get("violation") or {}
    steps = record["steps"]
    i = v.get("step")
    victim = steps[i] if i is not None and i < len(steps) else {}
    polluters = sorted(set("%s/%s" % (s["op"], (s.get("comp") or "fresh").split(":")[0]) for s in steps[: i or 0] if s["op"] != "gc"))
    return common.short_hash([v.get("oracle"), v.get("cls"), victim.get("op"), victim.get("read"), victim.get("write"), polluters], 8)


def describe(record, outcome):
    v = outcome["violation"]
    lines = ["C15 violation [%s] %s" % (v["oracle"], v["detail"]),
             "  config: %s" % json.dumps(record["config"], sort_keys=True),
             "  minimised history (%d steps):" % len(record["steps"])]
    for i, s in enumerate(record["steps"]):
        lines.append("    %2d. %s" % (i, _show(s) if s["op"] != "gc" else "gc " + s["how"]))
    return "\n".join(lines)


def simplify_record(rec, violation, state, same):
    import copy

    calls = 0
    for key, val in (("garbage", 0), ("gc", "default"), ("hashseed", 0)):
        if rec["config"].get(key) != val:
            r2 = copy.deepcopy(rec)
            r2["config"][key] = val
            calls += 1
            try:
                if same(execute(r2, state).get("violation"), violation):
                    rec = r2
            except Exception:
                pass
    for i in range(len(rec["steps"])):
        for key in ("exhaust", "exhaust_sweep", "abort_at"):
            if rec["steps"][i].get(key) is not None:
                r2 = copy.deepcopy(rec)
                r2["steps"][i].pop(key)
                calls += 1
                try:
                    if same(execute(r2, state).get("violation"), violation):
                        rec = r2
                except Exception:
                    pass
    return rec, calls


def extra_coverage(good):
    orders = set()
    for s in good:
        orders.update(s.get("situations", []))
    return {"cold_import_orders": len(orders), "reference_table_size": len(_REFS), "hash_seeds": "quick: %r; thorough: 0..31; references under %r" % (HASHSEEDS_QUICK, list(REF_SEEDS))}
