"""Lock seam for threadsim: cooperative Lock / RLock that park a managed thread in the scheduler instead of blocking in C.

install() must run BEFORE `import sqlglot` so that module-level locks (sqlglot.dialects._import_lock, sqlglot.optimizer's
lock) and importlib's per-module locks are created through the seam. Outside a simulation (SIM is None, or the calling
thread is not managed) the wrappers behave exactly like the real primitives. This is the only stubbed component.
"""
import _thread
import threading

_real_alloc = _thread.allocate_lock
_get_ident = _thread.get_ident

SIM = None  # set by the scheduler for the duration of a run


class SimLock:
    def __init__(self):
        self._real = _real_alloc()

    def acquire(self, blocking=True, timeout=-1):
        if self._real.acquire(False):
            return True
        if not blocking:
            return False
        sim = SIM
        if sim is None or not sim.managed():
            return self._real.acquire(blocking, timeout)
        while True:
            sim.block(self)
            if self._real.acquire(False):
                return True

    def release(self):
        self._real.release()
        sim = SIM
        if sim is not None:
            sim.released = True

    def locked(self):
        return self._real.locked()

    def free(self):
        return not self._real.locked()

    __enter__ = acquire

    def __exit__(self, *a):
        self.release()

    def _at_fork_reinit(self):
        self._real._at_fork_reinit()

    def __repr__(self):
        return "<SimLock %s>" % ("locked" if self._real.locked() else "free")


class SimRLock:
    def __init__(self):
        self._real = _real_alloc()
        self._owner = None
        self._count = 0

    def acquire(self, blocking=True, timeout=-1):
        me = _get_ident()
        if self._owner == me:
            self._count += 1
            return True
        if self._real.acquire(False):
            self._owner = me
            self._count = 1
            return True
        if not blocking:
            return False
        sim = SIM
        if sim is None or not sim.managed():
            r = self._real.acquire(blocking, timeout)
            if r:
                self._owner = me
                self._count = 1
            return r
        while True:
            sim.block(self)
            if self._real.acquire(False):
                self._owner = me
                self._count = 1
                return True

    def release(self):
        if self._owner != _get_ident():
            raise RuntimeError("cannot release un-acquired lock")
        self._count -= 1
        if self._count == 0:
            self._owner = None
            self._real.release()
            sim = SIM
            if sim is not None:
                sim.released = True

    def free(self):
        return not self._real.locked()

    def locked(self):
        return self._real.locked()

    __enter__ = acquire

    def __exit__(self, *a):
        self.release()

    def _is_owned(self):
        return self._owner == _get_ident()

    def _release_save(self):
        count, owner = self._count, self._owner
        self._count, self._owner = 0, None
        self._real.release()
        return (count, owner)

    def _acquire_restore(self, state):
        self._real.acquire()
        self._count, self._owner = state

    def _at_fork_reinit(self):
        self._real._at_fork_reinit()
        self._owner = None
        self._count = 0

    def __repr__(self):
        return "<SimRLock owner=%s count=%s>" % (self._owner, self._count)


_installed = False


def install():
    global _installed
    if _installed:
        return
    _thread.allocate_lock = SimLock
    _thread.RLock = SimRLock
    threading.Lock = SimLock
    threading._allocate_lock = SimLock
    threading._CRLock = SimRLock
    threading.RLock = SimRLock
    _installed = True
