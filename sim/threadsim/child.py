"""threadsim child: one multi-threaded run of sqlglot from the cold template state under a deterministic scheduler.

Real threads, baton passing: exactly one managed thread runs at any time; every other one is parked on its own real lock.
Pre-emption points are sys.settrace `call` events of in-scope frames and `line` events inside them (scope = the sqlglot
package under VERIF_SQLGLOT_ROOT); everything else - CPython's importlib included - is atomic, as every C-level operation is
under a GIL. Who runs next is decided by one PRNG (rng modes) or by a recorded schedule (replay mode). Threads that
would block on a lock held by another managed thread are parked in the scheduler (seam.SimLock / SimRLock).
"""
import _imp
import _thread
import gc
import hashlib
import os
import random
import sys

from sim.threadsim import seam

_real_alloc = seam._real_alloc
_get_ident = _thread.get_ident


class Deadlock(BaseException):
    pass


class SimThread:
    __slots__ = ("idx", "script", "baton", "done", "blocked_on", "results", "steps", "ident", "queue", "prio", "where")

    def __init__(self, idx, script):
        self.idx = idx
        self.script = script
        self.baton = _real_alloc()
        self.baton.acquire()
        self.done = False
        self.blocked_on = None
        self.results = []
        self.steps = 0
        self.ident = None
        self.queue = []  # replay: remaining [own_step, next, gc] entries of this thread, in order
        self.prio = 0
        self.where = None


class Sim:
    def __init__(self, cfg, scripts, schedule, scope, log_events=False):
        self.cfg = cfg
        self.rng = random.Random(cfg.get("sched_seed", 0))
        self.threads = [SimThread(i, s) for i, s in enumerate(scripts)]
        self.by_ident = {}
        self.current = None
        self.step = 0
        self.scope = scope
        self.all_done = _real_alloc()
        self.all_done.acquire()
        self.record = []  # [tid, own_step, next_tid, gc, kind, where]
        self.h = hashlib.blake2b(digest_size=16) if log_events else None
        self.deadlock = None
        self.livelock = False
        self.blocks = 0
        self.released = False
        self.seen_code = set()
        self.module_execs = {}
        self.cold_until = -1
        self.probes = {"switches": 0, "switch_in_cold_code": 0, "switch_inside_dialect_class_init": 0, "switch_inside_import": 0,
                       "switch_inside_dispatch_build": 0, "switch_inside_optimizer_getattr": 0, "parked_on_import_lock": 0, "parked_on_other_lock": 0,
                       "gc_injected": 0, "cold_code_objects": 0, "starved_steps_max": 0}
        self.budget = cfg.get("budget", 40_000_000)
        self.mode = "replay" if schedule is not None else cfg.get("strategy", "random")
        if schedule is not None:
            for e in schedule:
                self.threads[e[0]].queue.append([e[1], e[2], bool(e[3]) if len(e) > 3 else False, e[4] if len(e) > 4 else "event"])
        self.mean_gap = cfg.get("mean_gap", 3000)
        self.p_cold = cfg.get("p_cold", 0.0)
        self.gc_rate = cfg.get("gc_rate", 0.0)
        self.next_switch = self._gap() if self.mode in ("random", "cold") else 1 << 62
        if self.mode == "pct":
            order = list(range(len(self.threads)))
            self.rng.shuffle(order)
            for p, i in enumerate(order):
                self.threads[i].prio = len(order) + 10 - p
            d = cfg.get("pct_depth", 2)
            hi = 4.3 if cfg.get("warm") else 6.2
            self.change_points = sorted(int(10 ** self.rng.uniform(1, hi)) for _ in range(max(0, d - 1)))
            self.low = 0
        else:
            self.change_points = []
        self.next_cp = self.change_points[0] if self.change_points else 1 << 62
        self._import_lock_obj = None
        # publication bias: process-wide registries whose growth means "something has just become visible to other threads"
        # (a module in sys.modules, a dialect class in the registry, a generator dispatch table, a lazily bound package attribute)
        self.p_pub = cfg.get("p_pub", 0.0) if self.mode in ("random", "cold") else 0.0
        self.watch = []
        if self.p_pub:
            if cfg.get("pub_watch") == "all":
                self.watch.append(sys.modules)  # a module object becomes visible before its body has run (importlib's module lock covers that)
            for mod, attr in (("sqlglot.dialects.dialect", "_Dialect"), ("sqlglot.generator", "_DISPATCH_CACHE"), ("sqlglot.optimizer", None), ("sqlglot.dialects", None)):
                m = sys.modules.get(mod)
                if m is None:
                    continue
                o = m.__dict__ if attr is None else getattr(m, attr, None)
                if attr == "_Dialect" and o is not None:
                    o = getattr(o, "_classes", None)
                if isinstance(o, dict):
                    self.watch.append(o)
        self.pub_sig = sum(map(len, self.watch))
        self.probes["publication_switches"] = 0

    # ------------------------------------------------------------------ helpers
    def _gap(self):
        return self.step + 1 + int(self.rng.expovariate(1.0 / self.mean_gap))

    def managed(self):
        return _get_ident() in self.by_ident

    def runnable(self):
        return [t for t in self.threads if not t.done and (t.blocked_on is None or t.blocked_on.free())]

    def _where(self, frame):
        if frame is None:
            return "-"
        co = frame.f_code
        fn = co.co_filename
        i = fn.rfind("/sqlglot/")
        return "%s:%s" % (fn[i + 9 :] if i >= 0 else fn[-30:], co.co_name)

    def _probe_switch(self, frame):
        self.probes["switches"] += 1
        if self.step <= self.cold_until:
            self.probes["switch_in_cold_code"] += 1
        f = frame
        depth = 0
        seen_import = False
        while f is not None and depth < 60:
            co = f.f_code
            fn = co.co_filename
            if fn.endswith("dialects/dialect.py") and co.co_name == "__new__":
                self.probes["switch_inside_dialect_class_init"] += 1
                break
            if co.co_name == "_build_dispatch" or (fn.endswith("generator.py") and co.co_name == "__init__"):
                self.probes["switch_inside_dispatch_build"] += 1
            if fn.endswith("optimizer/__init__.py") and co.co_name == "__getattr__":
                self.probes["switch_inside_optimizer_getattr"] += 1
            if not seen_import and fn.startswith("<frozen importlib"):
                seen_import = True
                self.probes["switch_inside_import"] += 1
            f = f.f_back
            depth += 1

    def _switch_to(self, cur, nxt, frame, kind, do_gc=False):
        where = self._where(frame) if frame is not None else kind
        self.record.append([cur.idx if cur else -1, cur.steps if cur else 0, nxt.idx, 1 if do_gc else 0, kind, where])
        if do_gc and self.probes["gc_injected"] < 40:
            self.probes["gc_injected"] += 1
            gc.collect()
        if nxt is cur:
            return
        if frame is not None:
            self._probe_switch(frame)
        self.current = nxt
        nxt.baton.release()
        if cur is not None and not cur.done:
            cur.baton.acquire()

    def _pick(self, cands, cur, kind):
        """Scheduler choice among runnable candidates at a forced decision (block / thread end)."""
        if self.mode == "replay":
            q = cur.queue
            while q and q[0][0] < cur.steps:
                q.pop(0)
            if q and q[0][0] == cur.steps and q[0][3] == kind:
                e = q.pop(0)
                for t in cands:
                    if t.idx == e[1]:
                        return t
            return min(cands, key=lambda t: t.idx)
        if self.mode == "pct":
            return max(cands, key=lambda t: t.prio)
        if self.mode == "serial":
            return min(cands, key=lambda t: t.idx)
        return cands[self.rng.randrange(len(cands))]

    # ------------------------------------------------------------------ lock seam entry
    def block(self, lock):
        cur = self.current
        cur.blocked_on = lock
        self.blocks += 1
        if lock is self._import_lock():
            self.probes["parked_on_import_lock"] += 1
        else:
            self.probes["parked_on_other_lock"] += 1
        cands = [t for t in self.runnable() if t is not cur]
        if not cands:
            if lock.free():
                cur.blocked_on = None
                return
            self._fatal_deadlock()
        nxt = self._pick(cands, cur, "block")
        self._switch_to(cur, nxt, None, "block")
        cur.blocked_on = None

    def _import_lock(self):
        if self._import_lock_obj is None:
            m = sys.modules.get("sqlglot.dialects")
            self._import_lock_obj = getattr(m, "_import_lock", False) if m else False
        return self._import_lock_obj

    def _fatal_deadlock(self):
        import traceback

        frames = sys._current_frames()
        info = []
        for t in self.threads:
            if t.done:
                continue
            stack = []
            if t.ident in frames:
                for fs in traceback.extract_stack(frames[t.ident]):
                    if "/sim/" in fs.filename:
                        continue
                    i = fs.filename.rfind("/sqlglot/")
                    stack.append("%s:%s:%d" % (fs.filename[i + 9 :] if i >= 0 else fs.filename[-40:], fs.name, fs.lineno))
            info.append({"thread": t.idx, "blocked_on": repr(t.blocked_on), "stack": stack[-14:]})
        self.deadlock = info
        self.all_done.release()
        lk = _real_alloc()
        lk.acquire()
        lk.acquire()  # park this thread forever; the child process exits from the main thread

    # ------------------------------------------------------------------ pre-emption seam
    def trace(self, frame, event, arg):
        if event == "call":
            co = frame.f_code
            fn = co.co_filename
            if not fn.startswith(self.scope):
                return None
            cold = False
            if co not in self.seen_code:
                self.seen_code.add(co)
                cold = True
                self.cold_until = self.step + 200
                if co.co_name == "<module>":
                    self.module_execs[fn] = self.module_execs.get(fn, 0) + 1
            elif co.co_name == "<module>":
                self.module_execs[fn] = self.module_execs.get(fn, 0) + 1
        elif event != "line":
            return self.trace
        else:
            cold = False
        self.step += 1
        cur = self.current
        cur.steps += 1
        if self.h is not None:
            self.h.update(b"%d:%s:%s:%d;" % (cur.idx, event.encode(), frame.f_code.co_name.encode(), frame.f_lineno))
        mode = self.mode
        if mode == "replay":
            q = cur.queue
            if q and q[0][0] <= cur.steps:
                while q and q[0][0] < cur.steps:
                    q.pop(0)
                if q and q[0][0] == cur.steps and q[0][3] == "event":
                    e = q.pop(0)
                    if _imp.lock_held():
                        # never hand over while this thread holds CPython's global import lock (a C-level lock the
                        # seam cannot make cooperative): a shrunk schedule may land here although the recorded one did not
                        return self.trace
                    nxt = self.threads[e[1]]
                    if nxt.done or not (nxt.blocked_on is None or nxt.blocked_on.free()):
                        r = self.runnable()
                        nxt = min(r, key=lambda t: t.idx) if r else cur
                    self._switch_to(cur, nxt, frame, "event", e[2])
        elif mode == "pct":
            if self.step >= self.next_cp or self.released:
                if _imp.lock_held():
                    return self.trace
                if self.step >= self.next_cp:
                    self.change_points.pop(0)
                    self.next_cp = self.change_points[0] if self.change_points else 1 << 62
                    self.low -= 1
                    cur.prio = self.low
                self.released = False
                r = self.runnable()
                if r:
                    nxt = max(r, key=lambda t: t.prio)
                    if nxt is not cur:
                        self._switch_to(cur, nxt, frame, "event")
        elif mode != "serial":
            want = self.step >= self.next_switch
            if cold and not want and self.p_cold and self.rng.random() < self.p_cold:
                want = True
            if self.p_pub:
                sig = sum(map(len, self.watch))
                if sig != self.pub_sig:
                    self.pub_sig = sig
                    if not want and self.rng.random() < self.p_pub and not _imp.lock_held():
                        # the previous step published something: hand over right now and let the others run for a long while
                        r = self.runnable()
                        others = [t for t in r if t is not cur]
                        if others:
                            self.probes["publication_switches"] += 1
                            self.next_switch = self.step + 1 + 4 * self.mean_gap + int(self.rng.expovariate(1.0 / (4 * self.mean_gap)))
                            self._switch_to(cur, others[self.rng.randrange(len(others))], frame, "event")
                            return self.trace
            if want and not _imp.lock_held():
                if self.step >= self.next_switch:
                    self.next_switch = self._gap()
                r = self.runnable()
                if len(r) > 1 or (r and r[0] is not cur):
                    nxt = r[self.rng.randrange(len(r))]
                    # at most 40 collections per run: with gaps of a few events an uncapped rate made runs arbitrarily slow
                    do_gc = bool(self.gc_rate) and self.rng.random() < self.gc_rate and self.probes["gc_injected"] < 40
                    if nxt is not cur or do_gc:
                        self._switch_to(cur, nxt, frame, "event", do_gc)
        if self.step > self.budget:
            self.livelock = True
            self.all_done.release()
            lk = _real_alloc()
            lk.acquire()
            lk.acquire()
        return self.trace

    # ------------------------------------------------------------------ thread bodies
    def body(self, st, run_call):
        st.baton.acquire()
        sys.settrace(self.trace)
        try:
            comps = None
            for call in st.script:
                st.results.append(run_call(call))
        finally:
            sys.settrace(None)
            st.done = True
            r = self.runnable()
            if r:
                nxt = self._pick(r, st, "end")
                self.record.append([st.idx, st.steps, nxt.idx, 0, "end", "end"])
                self.current = nxt
                nxt.baton.release()
            else:
                rest = [t for t in self.threads if not t.done]
                if rest:
                    self.deadlock = [{"thread": t.idx, "blocked_on": repr(t.blocked_on), "stack": []} for t in rest]
                self.all_done.release()

    def run(self, run_call):
        seam.SIM = self
        for st in self.threads:
            st.ident = _thread.start_new_thread(self.body, (st, run_call))
            self.by_ident[st.ident] = st
        if self.mode == "replay":
            first = self.threads[self.cfg.get("first", 0) % len(self.threads)]
        elif self.mode == "pct":
            first = max(self.threads, key=lambda t: t.prio)
        elif self.mode == "serial":
            first = self.threads[0]
        else:
            first = self.threads[self.rng.randrange(len(self.threads))]
        self.first = first.idx
        self.current = first
        first.baton.release()
        self.all_done.acquire()
        seam.SIM = None


# --------------------------------------------------------------------------- calls


SHARED = {}  # schema name -> one MappingSchema object handed to every thread of the run (created after the warm-up, so its caches are cold)


def _shared_schema(name):
    from sim.histsim import child as hchild
    from sqlglot.schema import MappingSchema

    s = SHARED.get(name)
    if s is None:
        s = MappingSchema(hchild.SCHEMAS[name])  # "alone" reference runs and the warm-up phase: a private object
    return s


_DIALECTS = {}
MICRO_KINDS = ["format_time", "json_path", "normalize_identifier", "to_table", "data_type", "tokenize", "dialect_settings", "column_names"]


def _micro(what, d, arg):
    """Small public entry points: a few dozen lines each, so that under fine-grained scheduling most pre-emptions land in or next
    to whatever memo / scratch state they keep."""
    from sqlglot import exp
    from sqlglot.dialects.dialect import Dialect

    if what == "format_time":
        dl = _DIALECTS.get(d) or _DIALECTS.setdefault(d, Dialect.get_or_raise(d))  # harness-side memo (harness frames are atomic)
        r = dl.format_time(exp.Literal.string(arg))
        return r.this if r is not None else None
    if what == "json_path":
        dl = _DIALECTS.get(d) or _DIALECTS.setdefault(d, Dialect.get_or_raise(d))
        r = dl.to_json_path(exp.Literal.string(arg))
        return repr(r) if r is not None else None
    if what == "normalize_identifier":
        from sqlglot.optimizer.normalize_identifiers import normalize_identifiers

        return normalize_identifiers(exp.to_identifier(arg), dialect=d).sql(dialect=d)
    if what == "to_table":
        return exp.to_table(arg, dialect=d).sql(dialect=d)
    if what == "data_type":
        return exp.DataType.build(arg, dialect=d).sql(dialect=d)
    if what == "tokenize":
        return [[t.token_type.name, t.text] for t in Dialect.get_or_raise(d).tokenize(arg)]
    if what == "dialect_settings":
        dl = Dialect.get_or_raise("%s, normalization_strategy=%s" % (d or "duckdb", arg))
        return [type(dl).__name__, dl.normalization_strategy.name]
    if what == "column_names":
        sch = _shared_schema("xyz")
        return [sch.column_names(arg, dialect=d), str(sch.get_column_type(arg, "a", dialect=d))]
    raise ValueError(what)


def _micro_arg(what, i):
    if what == "format_time":
        return ["%Y-%m-%d", "%H:%M:%S", "%Y", "%d/%m/%y %H"][i % 4] if i < 4 else "%d k" + str(i)
    if what == "json_path":
        return ["$.a.b", "$.a[0]", "$.x"][i % 3] if i < 3 else "$.k%d.v[%d]" % (i, i % 5)
    if what == "normalize_identifier":
        return ["Foo", "bar", "BAZ"][i % 3] if i < 3 else "Id%d" % i
    if what == "to_table":
        return ["a.b.c", "Db.Tbl"][i % 2] if i < 2 else "c%d.d.T%d" % (i % 7, i)
    if what == "data_type":
        return ["DECIMAL(10, 2)", "ARRAY<INT>", "VARCHAR(20)"][i % 3] if i < 3 else "DECIMAL(%d, %d)" % (10 + i % 20, i % 7)
    if what == "tokenize":
        return ["SELECT a, 'x' FROM t", "a + b"][i % 2] if i < 2 else "SELECT c%d, 'v%d' FROM t%d" % (i, i, i)
    if what == "dialect_settings":
        return ["lowercase", "uppercase", "case_sensitive", "case_insensitive"][i % 4]
    if what == "column_names":
        return ["x", "y", "z", "w", "mixed"][i % 5]
    raise ValueError(what)


def run_call(call):
    """Canonical output of one call. Standard ops are shared with histsim; the rest are the lazy-loading entry points."""
    from sim.histsim import child as hchild

    op = call["op"]
    try:
        if call.get("shared_schema") and op in ("optimize", "qualify"):
            # an application-wide schema object passed to concurrent optimize()/qualify() calls: lookups fill its caches
            import sqlglot

            tree = sqlglot.parse_one(call["sql"], read=call.get("read"))
            sch = _shared_schema(call["schema"])
            if op == "optimize":
                from sqlglot.optimizer import optimize

                return ["ok", optimize(tree, schema=sch, dialect=call.get("read")).sql(call.get("read"))]
            from sqlglot.optimizer.qualify import qualify

            return ["ok", qualify(tree, schema=sch, dialect=call.get("read")).sql(call.get("read"))]
        if op == "dialect_get":
            from sqlglot.dialects.dialect import Dialect

            d = Dialect.get_or_raise(call["name"])
            k = type(d)
            return ["ok", [k.__name__, k.tokenizer_class.__qualname__, k.parser_class.__qualname__, k.generator_class.__qualname__, sorted(k.TIME_MAPPING)[:5]]]
        if op == "dattr":
            import sqlglot.dialects as D

            k = getattr(D, call["name"])
            return ["ok", [k.__name__, k.tokenizer_class.__qualname__, k.parser_class.__qualname__, k.generator_class.__qualname__]]
        if op == "optattr":
            import sqlglot
            import sqlglot.optimizer as o

            fn = getattr(o, call["name"])
            if call["name"] == "optimize":
                return ["ok", fn(sqlglot.parse_one(call["sql"], read=call.get("read")), schema=hchild.SCHEMAS["xyz"], dialect=call.get("read")).sql(call.get("read"))]
            return ["ok", fn.__name__]
        if op == "micro":
            # the same popular argument asked for `repeat` times in a row; every answer must be the same one
            outs = []
            for _ in range(call.get("repeat", 1)):
                o = _micro(call["what"], call.get("dialect"), _micro_arg(call["what"], call["i"]))
                if o not in outs:
                    outs.append(o)
            return ["ok", outs]
        if op == "bulk":
            # a long-running process in one call: a stream of DISTINCT inputs through one small entry point (fills bounded memos
            # up to and past their capacity while other threads keep asking for a few popular values)
            acc = []
            for i in range(call["start"], call["start"] + call["n"]):
                acc.append(_micro(call["what"], call.get("dialect"), _micro_arg(call["what"], i)))
            from sim.core import common as _c

            return ["ok", [len(acc), _c.short_hash(acc)]]
        if op == "classes":
            from sqlglot.dialects.dialect import Dialect

            return ["ok", sorted(Dialect.classes)]
        if op == "classes_iter":
            # enumerate the registry and instantiate every dialect (what a "list the supported dialects" helper does)
            from sqlglot.dialects.dialect import Dialect

            seen = []
            for name, k in Dialect.classes.items():
                seen.append([name, type(k()).__name__])
            return ["ok", sorted(seen)]
        if op == "load_many":
            from sqlglot.dialects.dialect import DIALECT_MODULE_NAMES, Dialect

            got = []
            for name in sorted(DIALECT_MODULE_NAMES):
                if name not in call["skip"]:
                    got.append(Dialect.get_or_raise(name).__class__.__name__)
            return ["ok", got]
    except Deadlock:
        raise
    except Exception as e:  # noqa
        return ["exc", type(e).__name__]
    return hchild.run_step(call, hchild.Components())


def _identity_check(names):
    """Dialect.get(name) must be the class object bound in the (single) module object in sys.modules."""
    from sqlglot.dialects.dialect import Dialect

    bad = []
    for name in sorted(names):
        try:
            k = Dialect.get(name)
        except Exception as e:
            bad.append("%s: get raised %s" % (name, type(e).__name__))
            continue
        if k is None:
            continue
        mod = sys.modules.get(k.__module__)
        if mod is None or getattr(mod, k.__name__, None) is not k:
            bad.append("%s: registry class is not the class bound in sys.modules[%s]" % (name, k.__module__))
        for attr in ("tokenizer_class", "parser_class", "generator_class"):
            if not hasattr(k, attr):
                bad.append("%s: registered class has no %s" % (name, attr))
    return bad


def run(req):
    sys.setrecursionlimit(max(sys.getrecursionlimit(), 3000))
    sys.setswitchinterval(1000)  # the simulator decides who runs; the interpreter should never pre-empt on its own
    if req.get("mode") == "alone":
        return {"outputs": [run_call(c) for c in req["calls"]]}
    rec = req["record"]
    cfg = rec["config"]
    scripts = rec["scripts"]
    root = os.path.realpath(os.environ.get("VERIF_SQLGLOT_ROOT", "/repo"))
    # Pre-emption points are the lines of sqlglot's own files. CPython's import machinery is modelled as atomic between its lock
    # operations (records written before this was decided carry no "importlib_steps" key and keep the old, wider scope so that
    # they replay): `_load_unlocked` pops a finished module from sys.modules and re-inserts it, and a thread switched in between
    # makes another thread's `sys.modules[parent]` raise KeyError - a window inside CPython, not a property of sqlglot.
    scope = (root + "/sqlglot/", "<frozen importlib") if cfg.get("importlib_steps", True) else (root + "/sqlglot/",)
    if cfg.get("warm"):
        # steady-state population: every call of the run is executed once, sequentially and untraced, before the threads
        # start, so that the schedule explores races in warm code (per-call scratch state shared between threads)
        for s_ in scripts:
            for c in s_:
                run_call(c)
    SHARED.clear()
    for s_ in scripts:
        for c in s_:
            if c.get("shared_schema") and c.get("schema") not in SHARED:
                from sim.histsim import child as hchild
                from sqlglot.schema import MappingSchema

                SHARED[c["schema"]] = MappingSchema(hchild.SCHEMAS[c["schema"]])
    sim = Sim(cfg, scripts, rec.get("schedule"), scope, log_events=bool(req.get("log_events")))
    sim.run(run_call)
    out = {
        "results": [t.results for t in sim.threads],
        "thread_steps": [t.steps for t in sim.threads],
        "steps": sim.step,
        "schedule": [[e[0], e[1], e[2], e[3], e[4]] for e in sim.record],
        "switch_sites": [[e[0], e[4], e[5]] for e in sim.record],
        "first": sim.first,
        "deadlock": sim.deadlock,
        "livelock": sim.livelock,
        "blocks": sim.blocks,
        "probes": sim.probes,
        "cold_code_objects": len(sim.seen_code),
        "module_execs_gt1": sorted([k[k.rfind("/sqlglot/") + 9 :], v] for k, v in sim.module_execs.items() if v > 1),
        "evdigest": sim.h.hexdigest() if sim.h else None,
    }
    if sim.deadlock or sim.livelock:
        return out
    # post-run health: every call once more, sequentially, in this (now warm) process
    post = []
    for s in scripts:
        post.append([run_call(c) for c in s])
    out["post"] = post
    names = set()
    for s in scripts:
        for c in s:
            for k in ("read", "write", "name"):
                v = c.get(k)
                if isinstance(v, str) and v.islower():
                    names.add(v)
    out["identity_errors"] = _identity_check(names)
    return out
