"""threadsim — C19: concurrent use from many threads gives the single-threaded answers.

One run = N real threads inside one child forked from a COLD template (sqlglot imported, no dialect / optimizer rule module
loaded, nothing called), each executing a script of calls, under a deterministic scheduler (see child.py). Oracles:
  O1 every call returns what it returns ALONE in its own cold process (same hash seed);   O2 none raises because of another thread
  O3 lazy loading runs each module body at most once, registry classes are the ones bound in sys.modules
  O4 post-run health: every call repeated sequentially in the same (now warm) process still gives the reference
  O5 no deadlock (all live threads parked) and bounded liveness (step budget)
A record is JSON: config (strategy, PRNG value, hash seed), scripts, and - once concretised - the explicit schedule.
"""
import copy
import json
import random

from sim.core import common
from sim.core.forkserver import TemplatePool

PROPS = ["C19"]
RULE = (
    "one run = 2-8 threads x 1-4 calls from a cold process, hot set of 1-3 dialect families so that several threads first-use the same "
    "dialect, one scheduling strategy (random walk with mean gap 30..300k trace events, PCT depth 1-3, cold-code biased, serial) driven by one "
    "PRNG value. signature = hash of the sequence of (thread, kind, file:function) at every scheduler decision. non-trivial = at least one "
    "pre-emption landed inside code executed for the first time in the process (cold window) while >= 2 threads use a common dialect."
)
COMPONENTS = {
    "real": ["all of sqlglot in real threads (lazy dialect import, dialect metaclass, optimizer lazy loading, generator dispatch cache, tokenizer/parser/generator)",
             "CPython importlib (module locks made cooperative through the lock seam; its own frames are atomic between lock operations)"],
    "stub": ["threading.Lock / RLock / _thread.allocate_lock replaced by cooperative wrappers that park the thread in the simulator (sim/threadsim/seam.py)"],
}
ASSUMPTIONS = [
    "pre-emption only between source lines / at function entry of sqlglot's own frames; C-level operations and CPython's importlib are atomic between lock operations; no opcode-level races",
    "cold start = sqlglot imported, no dialect or rule module loaded; the very first `import sqlglot` is not raced",
    "reference = the same call alone, single-threaded, untraced, in a cold child of the same template (same hash seed)",
    "pure-Python package only (no mypyc build)",
]

HASHSEEDS = {"quick": [0, 1], "thorough": [0, 1, 2, 3, 4, 5, 6, 7]}

Q1 = "SELECT a FROM (SELECT a, b FROM x) WHERE b > 1 AND TRUE"
Q2 = "SELECT x.a FROM x JOIN y ON x.b = y.b WHERE 1 = 1"


def T(sql, read, write):
    return {"op": "transpile", "sql": sql, "read": read, "write": write}


# Dialect-specific statements whose output differs between the base classes and the dialect's own classes, so that a
# half-initialised dialect (base tokenizer/parser/generator still in place) is observable in the result.
POOL = [
    T("SELECT EPOCH_MS(x), x // 2 FROM t QUALIFY ROW_NUMBER() OVER (ORDER BY x) = 1", "duckdb", "snowflake"),
    T("SELECT STRFTIME(x, '%Y-%m-%d'), [1, 2], {'a': 1} FROM t", "duckdb", "bigquery"),
    T("SELECT $$abc$$, e'x\\n', x::INT FROM t", "duckdb", "postgres"),
    T("SELECT a::INT, b FROM t WHERE c ILIKE '%x%'", "postgres", "duckdb"),
    T("SELECT a::INT, GETDATE() FROM t", "redshift", "risingwave"),
    T("SELECT a::INT, NOW() FROM t", "materialize", "redshift"),
    T("SELECT IFF(a > 1, 'x', 'y'), ARRAY_SIZE(b), c:d::string FROM t", "snowflake", "duckdb"),
    T("SELECT TO_TIMESTAMP(x, 'YYYY-MM-DD'), ZEROIFNULL(y) FROM t", "snowflake", "spark"),
    T("SELECT DATE_ADD(d, 1), `a` FROM t LATERAL VIEW EXPLODE(z) u AS v", "spark", "duckdb"),
    T("SELECT DATE_ADD(d, 1), `a` FROM t LATERAL VIEW EXPLODE(z) u AS v", "databricks", "trino"),
    T("SELECT DATE_ADD(d, 1), `a` FROM t LATERAL VIEW EXPLODE(z) u AS v", "hive", "athena"),
    T("SELECT DATE_ADD(d, 1), `a` FROM t", "spark2", "presto"),
    T("SELECT TOP 3 [a], GETDATE(), ISNULL(b, 0) FROM t", "tsql", "postgres"),
    T("SELECT TOP 3 [a] FROM t", "fabric", "materialize"),
    T("SELECT `a`, IFNULL(b, 1), x -> '$.a', y ->> 'b' FROM t", "mysql", "duckdb"),
    T("SELECT `a`, IFNULL(b, 1) FROM t", "doris", "starrocks"),
    T("SELECT `a`, IFNULL(b, 1) FROM t", "singlestore", "dune"),
    T("SELECT APPROX_DISTINCT(a), ELEMENT_AT(m, 'k'), DATE_FORMAT(d, '%Y') FROM t", "presto", "hive"),
    T("SELECT JSON_EXTRACT_SCALAR(j, '$.a'), DATE_TRUNC('day', ts) FROM t", "trino", "bigquery"),
    T("SELECT a FROM t WHERE b = 1", "athena", "trino"),
    T("SELECT toDate(x), arrayJoin(y) FROM t", "clickhouse", "oracle"),
    T("SELECT NVL(a, b), SYSDATE FROM dual", "oracle", "teradata"),
    T("SELECT a FROM t SAMPLE 5", "teradata", "snowflake"),
    T("SELECT SAFE_CAST(a AS INT64), `p.d.t`.c FROM `p.d.t`", "bigquery", "duckdb"),
    T("SELECT * FROM UNNEST([1, 2]) AS x", "bigquery", "presto"),
    T("SELECT a, IFNULL(b, 1) FROM t WHERE c GLOB '*x*'", "sqlite", "mysql"),
    T("SELECT ZEROIFNULL(a) FROM t", "exasol", "duckdb"),
    T("SELECT a FROM t LIMIT 3", "dremio", "tsql"),
    T("SELECT `a` FROM t", "drill", "postgres"),
    T("SELECT a FROM t", "druid", "mysql"),
    T("SELECT a FROM t", "tableau", "duckdb"),
    T("SELECT a FROM t", "solr", "duckdb"),
    T("from x", "prql", "duckdb"),
    # steady-state (not first-use) hazards: constructs whose parsing temporarily edits class-level parser tables
    T("SELECT a FROM t START WITH a = 1 CONNECT BY PRIOR a = b", "oracle", "snowflake"),
    T("SELECT a FROM t START WITH a = 1 CONNECT BY PRIOR a = b AND PRIOR c = d", "snowflake", "oracle"),
    T("SELECT prior, level FROM t WHERE prior > 1", "postgres", "duckdb"),
    T("SELECT prior FROM t", "snowflake", "snowflake"),
    {"op": "tokenize", "sql": "SELECT $$abc$$, e'x\\n', \"q\" FROM t -- c", "read": "postgres"},
    {"op": "tokenize", "sql": "SELECT `a`, r'raw', b'x' FROM `p.d.t`", "read": "bigquery"},
    {"op": "tokenize", "sql": "SELECT [a], N'x' FROM t", "read": "tsql"},
    {"op": "parse", "sql": "SELECT IFF(a, 1, 2), a:b::int FROM t", "read": "snowflake", "error_level": None},
    {"op": "parse", "sql": "SELECT x -> '$.a' FROM t LIMIT 1, 2", "read": "mysql", "error_level": None},
    {"op": "generate", "sql": "SELECT CAST(a AS TEXT), b || c, DATE_TRUNC('day', d) FROM t", "read": None, "write": "bigquery", "opts": {}},
    {"op": "generate", "sql": "SELECT CAST(a AS TEXT), b || c, DATE_TRUNC('day', d) FROM t", "read": None, "write": "tsql", "opts": {"pretty": True}},
    {"op": "generate", "sql": "SELECT CAST(a AS TEXT), b || c, DATE_TRUNC('day', d) FROM t", "read": None, "write": "clickhouse", "opts": {}},
    {"op": "generate", "sql": "SELECT CAST(a AS TEXT), b || c FROM t", "read": None, "write": "mysql", "opts": {"identify": True}},
    {"op": "optimize", "sql": Q1, "read": "duckdb", "schema": "xyz"},
    {"op": "optimize", "sql": Q2, "read": "snowflake", "schema": "xyz"},
    {"op": "optimize", "sql": Q1, "read": None, "schema": "xyz"},
    {"op": "optimize", "sql": "SELECT a FROM x WHERE a IN (SELECT a FROM z)", "read": "trino", "schema": "xyz"},
    {"op": "optimize", "sql": Q2, "read": "bigquery", "schema": "xyz"},
    {"op": "qualify", "sql": "SELECT a FROM x", "read": "bigquery", "schema": "xyz"},
    {"op": "qualify", "sql": "SELECT a, b FROM x", "read": "tsql", "schema": "xyz"},
    {"op": "annotate", "sql": "SELECT a + 1 AS s, CAST(b AS TEXT) AS t FROM x", "read": "spark", "schema": "xyz"},
    {"op": "rule", "rule": "pushdown_predicates", "sql": Q1, "read": None, "schema": "xyz"},
    {"op": "rule", "rule": "simplify", "sql": "SELECT a FROM x WHERE TRUE AND a = a AND (b = 1 OR b = 1)", "read": "postgres", "schema": "xyz"},
    {"op": "lineage", "sql": "SELECT a + b AS a FROM x", "read": "duckdb", "schema": "xyz", "column": "a"},
    # one MappingSchema OBJECT shared by all threads of the run (cold caches when the threads start)
    {"op": "optimize", "sql": "SELECT * FROM x JOIN y ON x.b = y.b", "read": "duckdb", "schema": "xyz", "shared_schema": True},
    {"op": "optimize", "sql": "SELECT x.*, z.c FROM x JOIN z ON x.a = z.a WHERE z.c = 'k'", "read": None, "schema": "xyz", "shared_schema": True},
    {"op": "optimize", "sql": Q2, "read": "snowflake", "schema": "xyz", "shared_schema": True},
    {"op": "qualify", "sql": "SELECT * FROM mixed", "read": "bigquery", "schema": "xyz", "shared_schema": True},
    {"op": "qualify", "sql": "SELECT * FROM x, y, z, w", "read": "postgres", "schema": "xyz", "shared_schema": True},
    {"op": "qualify", "sql": "SELECT a, b FROM x", "read": "tsql", "schema": "xyz", "shared_schema": True},
    {"op": "optattr", "name": "optimize", "sql": Q1, "read": "trino"},
    {"op": "optattr", "name": "optimize", "sql": "SELECT a FROM x WHERE a IN (SELECT a FROM z)", "read": "athena"},
    {"op": "optattr", "name": "qualify_columns"},
    {"op": "optattr", "name": "RULES"},
    {"op": "dattr", "name": "DuckDB"}, {"op": "dattr", "name": "Spark"}, {"op": "dattr", "name": "Trino"}, {"op": "dattr", "name": "Redshift"},
    {"op": "dattr", "name": "Databricks"}, {"op": "dattr", "name": "Snowflake"}, {"op": "dattr", "name": "BigQuery"}, {"op": "dattr", "name": "Athena"},
    {"op": "dialect_get", "name": "duckdb"}, {"op": "dialect_get", "name": "spark"}, {"op": "dialect_get", "name": "trino"}, {"op": "dialect_get", "name": "tsql"},
    {"op": "dialect_get", "name": "snowflake"}, {"op": "dialect_get", "name": "bigquery"}, {"op": "dialect_get", "name": "postgres"}, {"op": "dialect_get", "name": "mysql"},
    {"op": "dialect_get", "name": "doris"}, {"op": "dialect_get", "name": "fabric"}, {"op": "dialect_get", "name": "risingwave"}, {"op": "dialect_get", "name": "dune"},
    {"op": "classes"},
    {"op": "classes_iter"},
]

# Statements in the base dialect made of functions that many dialects print in their own way (time formats, date-integer
# conversions, JSON paths, string concatenation, casts): generated for EVERY dialect, so that a generator class whose tables
# were snapshotted or finished too early - by whichever thread got there first - prints something observably different.
WIDE1 = ("SELECT STR_TO_DATE(s, '%Y-%m-%d') AS d1, DATE_TO_DI(d) AS i1, DI_TO_DATE(i) AS d2, TS_OR_DS_TO_DATE(s) AS d3, STR_TO_TIME(s, '%Y-%m-%d %H:%M:%S') AS t1, "
         "TIME_TO_STR(t, '%Y') AS y, STR_TO_UNIX(s, '%Y-%m-%d') AS u, UNIX_TO_STR(u, '%Y') AS us, DATE_ADD(d, 1) AS d4, DATE_TRUNC('day', d) AS dt FROM t")
WIDE2 = ("SELECT CAST(a AS TEXT) AS c, b || c AS cc, ARRAY(1, 2) AS arr, JSON_EXTRACT(j, '$.a') AS je, JSON_EXTRACT_SCALAR(j, '$.b[0]') AS js, SAFE_DIVIDE(a, b) AS sd, "
         "IF(a > 1, 1, 0) AS f, x ILIKE 'y' AS il, APPROX_DISTINCT(a) AS ad, LEVENSHTEIN(p, q) AS lv, a DIV b AS fd, TRY_CAST(z AS INT) AS tc FROM t LIMIT 5")
ALL_DIALECTS = ["athena", "bigquery", "clickhouse", "databricks", "dax", "doris", "dremio", "drill", "druid", "duckdb", "dune", "exasol", "fabric", "hive", "materialize", "mysql",
                "oracle", "postgres", "presto", "prql", "redshift", "risingwave", "singlestore", "snowflake", "solr", "spark", "spark2", "sqlite", "starrocks", "tableau",
                "teradata", "trino", "tsql"]
for _d in ALL_DIALECTS:
    POOL.append({"op": "generate", "sql": WIDE1, "read": None, "write": _d, "opts": {}})
    POOL.append({"op": "generate", "sql": WIDE2, "read": None, "write": _d, "opts": {}})

FAMILIES = [
    ["oracle", "snowflake", "postgres"],
    ["hive", "spark2", "spark", "databricks"],
    ["mysql", "doris", "starrocks", "singlestore"],
    ["presto", "trino", "athena", "dune"],
    ["postgres", "redshift", "materialize", "risingwave"],
    ["tsql", "fabric"],
    ["duckdb"], ["snowflake"], ["bigquery"], ["clickhouse"], ["oracle"], ["teradata"], ["sqlite"], ["exasol"],
    ["drill"], ["druid"], ["dremio"], ["tableau"], ["solr"], ["prql"], ["dune", "trino"], ["spark2", "hive"], ["databricks", "spark"],
]

_REFS = {}


def _names(call):
    out = set()
    for k in ("read", "write", "name"):
        v = call.get(k)
        if isinstance(v, str):
            out.add(v.lower())
    return out


def plan(prop, tier):
    if tier == "thorough":
        return {"run_timeout": 1200, "mem_cap_gb": 0, "runs": 14000, "chunk": 100, "wall_cap": 1800, "selftest": 24, "shrink_wall": 900, "max_shrunk": 10, "ddmin_budget": 80}
    return {"run_timeout": 1200, "mem_cap_gb": 0, "runs": 1000, "chunk": 20, "wall_cap": 300, "selftest": 6, "shrink_wall": 300, "max_shrunk": 8, "ddmin_budget": 60}


def call_sig(call):
    return common.short_hash(call, 10)


def _alone(calls, tp, hashseed):
    r = tp.run(hashseed, {"mode": "alone", "calls": calls}, timeout=120)
    if "outputs" not in r:
        raise common.HarnessError("reference run failed: %s" % json.dumps(r)[:400])
    return r["outputs"]


def reference(call, tp, hashseed):
    key = (call_sig(call), hashseed)
    if key not in _REFS:
        a = _alone([call], tp, hashseed)[0]
        b = _alone([call], tp, hashseed)[0]
        if a != b:
            raise common.HarnessError("reference unstable for %r: %r vs %r" % (call, a, b))
        _REFS[key] = a
    return _REFS[key]


def _prepare_chunk(args):
    calls, seeds = args
    tp = TemplatePool("threadsim")
    out = {}
    try:
        for c in calls:
            for h in seeds:
                a = _alone([c], tp, h)[0]
                b = _alone([c], tp, h)[0]
                if a != b:
                    raise common.HarnessError("reference unstable for %r" % (c,))
                out[(call_sig(c), h)] = a
    finally:
        tp.close()
    return out


def prepare(prop, tier, seed):
    import concurrent.futures as cf
    import multiprocessing

    from sim.core import driver

    w = driver.WORKERS
    seeds = HASHSEEDS[tier]
    chunks = [(POOL[i::w], seeds) for i in range(w)]
    with cf.ProcessPoolExecutor(max_workers=w, mp_context=multiprocessing.get_context("fork")) as ex:
        for part in ex.map(_prepare_chunk, chunks):
            _REFS.update(part)
    return {"reference_calls": len(POOL), "reference_executions": 2 * len(POOL) * len(seeds), "hash_seeds": seeds, "extra_records": sweep_records(seed, tier)}


# measured trace events per item of each micro entry point (bulk streams are sized by an event budget, not by a count)
MICRO_COST = {"format_time": 200, "json_path": 1400, "normalize_identifier": 300, "to_table": 1900, "data_type": 1900, "tokenize": 1000, "dialect_settings": 60, "column_names": 4000}


def micro_n(what, events):
    return max(40, min(3000, events // MICRO_COST.get(what, 1000)))


def sweep_records(seed, tier):
    """Systematic part of a batch, so that no dialect depends on being drawn by chance: for EVERY dialect
    (a) cold first use by three threads at once, scheduled by publication bias only (a thread runs undisturbed until something it
        did becomes visible in a registry, then the others run) - what exposes a class that is usable before its module has
        finished, a table snapshotted too early, a registry entry published half-built;
    (b) warm write-focus contention on that dialect's generator for three kinds of per-generator state (anonymous alias counter,
        unsupported-message list under RAISE, identifier-quoting toggles around function signatures)."""
    from sim.corpus import corpus

    fams = corpus.stateful_families()
    kinds = [("alias", fams["anon_alias"], {}), ("unsupported", fams["unsupported"] + [(None, "SELECT a FROM t"), (None, "SELECT a FROM t")], {"unsupported_level": "RAISE"}),
             ("signature", fams["signature"] + [(None, "SELECT x FROM t")], {"identify": True})]
    out = []
    k = 0
    reps = 2 if tier == "quick" else 6
    for d in ALL_DIALECTS:
        for rep in range(reps):
            k += 1
            rng = random.Random(common.derive_seed("C19-sweep", seed, k))
            scripts = [[{"op": "generate", "sql": WIDE1, "read": None, "write": d, "opts": {}}], [{"op": "generate", "sql": WIDE2, "read": None, "write": d, "opts": {}}],
                       [{"op": "generate", "sql": WIDE1, "read": None, "write": d, "opts": {}}]]
            if rep % 2:
                scripts[1] = [{"op": "dialect_get", "name": d}, scripts[1][0]]
            out.append({"engine": "threadsim", "config": {"warm": False, "hashseed": HASHSEEDS[tier][rep % len(HASHSEEDS[tier])], "strategy": "random", "sched_seed": rng.getrandbits(48),
                                                           "mean_gap": 3000000, "pct_depth": 1, "p_cold": 0.0, "gc_rate": 0.0, "p_pub": 1.0, "pub_watch": "registries", "sweep": "cold-first-use", "importlib_steps": False},
                        "scripts": scripts})
        for kind, stmts, opts in kinds:
            k += 1
            rng = random.Random(common.derive_seed("C19-sweep", seed, k))
            # every statement of the family, each thread starting somewhere else in the list
            scripts = []
            for ti in range(3):
                off_ = rng.randrange(len(stmts))
                scripts.append([{"op": "generate", "sql": q, "read": rd, "write": d, "opts": dict(opts)} for rd, q in stmts[off_:] + stmts[:off_]])
            out.append({"engine": "threadsim", "config": {"warm": True, "hashseed": 0, "strategy": "random", "sched_seed": rng.getrandbits(48), "mean_gap": rng.choice([10, 100, 1000]),
                                                           "pct_depth": 1, "p_cold": 0.0, "gc_rate": 0.0, "sweep": "write-focus:" + kind, "importlib_steps": False},
                        "scripts": scripts})
    # (b') the function zoo: the threads print the same two dozen-function statements for one dialect, each with its own literal
    #      arguments - a generator method that assembles its output in something shared prints another thread's values
    from sim.corpus import corpus as _corpus

    nz = len(_corpus.zoo_statements(0))
    for d in ALL_DIALECTS:
        for rep in range(1 if tier == "quick" else 4):
            k += 1
            rng = random.Random(common.derive_seed("C19-sweep", seed, k))
            idx = rng.sample(range(nz), 6) if tier == "quick" else [j_ % nz for j_ in range(rep * 6, rep * 6 + 6)]  # thorough: all of them
            scripts = [[{"op": "generate", "sql": _corpus.zoo_statements(ti)[j], "read": None, "write": d, "opts": {}} for j in idx] for ti in range(3)]
            out.append({"engine": "threadsim", "config": {"warm": True, "hashseed": 0, "strategy": "random", "sched_seed": rng.getrandbits(48), "mean_gap": rng.choice([10, 100, 1000]),
                                                           "pct_depth": 1, "p_cold": 0.0, "gc_rate": 0.0, "sweep": "write-focus:zoo", "importlib_steps": False},
                        "scripts": scripts})
    # (c) micro contention on every small entry point: one thread streams thousands of distinct arguments (any bounded memo
    #     overflows several times), two threads keep asking for two popular ones
    from sim.threadsim.child import MICRO_KINDS

    for what in MICRO_KINDS:
        for rep in range(12 if tier == "quick" else 24):
            k += 1
            rng = random.Random(common.derive_seed("C19-sweep", seed, k))
            md = rng.choice([None, "duckdb", "snowflake", "bigquery", "postgres", "mysql", "spark", "tsql", "oracle", "clickhouse", "presto", "hive"])
            extra = {"shared_schema": True, "schema": "xyz"} if what == "column_names" else {}
            n_ = micro_n(what, 400000)
            scripts = [[{"op": "bulk", "what": what, "dialect": md, "start": 10, "n": n_, **extra}]]
            scripts += [[{"op": "micro", "what": what, "dialect": md, "i": rng.randrange(4), "repeat": n_ // 2, **extra} for _ in range(2)] for _ in range(2)]
            out.append({"engine": "threadsim", "config": {"warm": True, "hashseed": 0, "strategy": "random", "sched_seed": rng.getrandbits(48), "mean_gap": rng.choice([3, 10, 30, 100, 300]),
                                                           "pct_depth": 1, "p_cold": 0.0, "gc_rate": 0.0, "sweep": "micro:" + what, "importlib_steps": False},
                        "scripts": scripts})
    return out


def worker_init(prop, tier):
    return {"tp": TemplatePool("threadsim"), "tier": tier}


def worker_close(state):
    if state:
        state["tp"].close()


def generate(prop, run_seed, tier):
    rng = random.Random(run_seed)
    n = rng.choice([2, 2, 3, 3, 4, 4, 6, 8] if tier == "thorough" else [2, 2, 2, 3, 3, 4, 6])
    fams = rng.sample(FAMILIES, rng.choice([1, 1, 2, 3]))
    hot_names = set(x for f in fams for x in f)
    hot = [c for c in POOL if _names(c) & hot_names] or POOL
    scripts = []
    for _ in range(n):
        k = rng.choice([1, 1, 2, 2, 3] if tier == "quick" else [1, 2, 2, 3, 4])
        scripts.append([copy.deepcopy(hot[rng.randrange(len(hot))] if rng.random() < 0.85 else POOL[rng.randrange(len(POOL))]) for _ in range(k)])
    strat = rng.choice(["random", "random", "random", "pct", "pct", "cold", "cold", "cold", "serial"])
    warm = rng.random() < 0.5
    if warm and rng.random() < 0.6:
        # same-call contention: every thread runs the SAME call a few times in warm code. Any per-call scratch state that
        # lives at class or module level instead of on the instance is then written by several threads at once.
        r_ = rng.random()
        if r_ < 0.12:
            c = rng.choice([x for x in POOL if x.get("shared_schema")])
        elif r_ < 0.5:
            c = POOL[rng.randrange(len(POOL))]
        else:
            from sim.corpus import corpus

            if r_ < 0.7:
                d, q = rng.choice(corpus.STATEFUL + [(None, x) for x in corpus.SOFT_KEYWORDS])
            else:
                # any statement of the test corpus, rare statement kinds as likely as SELECTs: steady-state contention
                # reaches whatever class-level scratch state a rarely used parser/generator path may keep
                strata = corpus.extracted_strata()
                st_ = strata[rng.randrange(len(strata))] if strata else corpus.GENERAL
                d, q = st_[rng.randrange(len(st_))]
            c = T(q, d, rng.choice([d, d, "duckdb", "snowflake", "postgres"]))
        k = rng.choice([1, 2, 3])
        scripts = [[copy.deepcopy(c) for _ in range(k)] for _ in range(n)]
    elif warm and rng.random() < 0.35:
        # write-focus contention: every thread generates for ONE dialect with ONE option set, each its own sample of a few
        # statements that touch per-generator state (anonymous alias counter, unsupported-message list, identifier quoting
        # toggles) - whatever that dialect's generator shares between instances is then written by several threads at once
        from sim.corpus import corpus

        wd = rng.choice(ALL_DIALECTS)
        opts = dict(rng.choice([{}, {}, {"unsupported_level": "RAISE"}, {"unsupported_level": "RAISE"}, {"identify": True}, {"pretty": True}]))
        fams = corpus.stateful_families()
        cand = fams["anon_alias"] + fams["anon_alias"] + fams["signature"] + fams["unsupported"] + fams["lambda"] + [(None, WIDE2), (None, "SELECT a FROM t")]
        stmts = [cand[rng.randrange(len(cand))] for _ in range(rng.choice([2, 3, 4]))]
        scripts = [[{"op": "generate", "sql": q, "read": d, "write": wd, "opts": opts} for d, q in (stmts[rng.randrange(len(stmts))] for _ in range(rng.choice([2, 3, 4])))]
                   for _ in range(n)]
    elif warm and rng.random() < 0.25:
        # micro contention: one small public entry point (a few dozen lines: time-format conversion, JSON path parsing,
        # identifier normalisation, table / type parsing, dialect settings, schema lookups on one shared MappingSchema), a few
        # popular arguments asked for again and again by most threads, and - usually - one thread streaming hundreds of
        # distinct arguments through the same entry point, which drives any bounded memo past its capacity meanwhile
        from sim.threadsim.child import MICRO_KINDS

        what = rng.choice(MICRO_KINDS)
        md = rng.choice([None, "duckdb", "snowflake", "bigquery", "postgres", "mysql", "spark", "tsql", "oracle", "clickhouse", "presto", "hive"])
        scripts = []
        extra = {"shared_schema": True, "schema": "xyz"} if what == "column_names" else {}
        bulk_n = micro_n(what, rng.choice([60000, 150000, 400000]))
        for ti in range(n):
            if ti == 0 and rng.random() < 0.7:
                scripts.append([{"op": "bulk", "what": what, "dialect": md, "start": 10, "n": bulk_n, **extra}])
            else:
                # the threads asking for popular values live about as long as the streaming one (a miss costs a few times a hit)
                pop = [rng.randrange(4) for _ in range(2)]
                scripts.append([{"op": "micro", "what": what, "dialect": md, "i": pop[rng.randrange(2)], "repeat": bulk_n * rng.choice([1, 2]) // 2, **extra} for _ in range(2)])
    elif not warm and rng.random() < 0.06:
        # registry-shaped run: one thread loads (nearly) every dialect, another enumerates the registry, the others first-use
        # the dialects that were left out
        skip = rng.sample(ALL_DIALECTS, rng.choice([0, 1, 1, 2]))
        scripts = [[{"op": "load_many", "skip": sorted(skip)}], [{"op": rng.choice(["classes", "classes_iter"])}]]
        scripts += [[{"op": "dialect_get", "name": d_}] for d_ in skip]
        if rng.random() < 0.5:
            scripts[1].insert(0, {"op": "load_many", "skip": sorted(skip)})
        n = len(scripts)
    if warm:
        strat = rng.choice(["random", "random", "random", "pct"])
    cfg = {
        "warm": warm,
        "hashseed": rng.choice(HASHSEEDS[tier]),
        "strategy": strat,
        "sched_seed": rng.getrandbits(48),
        "mean_gap": (rng.choice([3, 10, 30, 100, 300, 1000]) if warm else rng.choice([30, 300, 3000, 30000, 300000])) if strat == "random" else rng.choice([30000, 300000, 3000000]),
        "pct_depth": rng.choice([1, 2, 3]),
        "p_cold": rng.choice([0.02, 0.1, 0.3]) if strat == "cold" else 0.0,
        "p_pub": rng.choice([0.0, 0.5, 1.0]) if (strat in ("random", "cold") and not warm) else 0.0,
        "pub_watch": "registries",
        "importlib_steps": False,
        "gc_rate": rng.choice([0.0, 0.0, 0.05]),
    }
    return {"engine": "threadsim", "config": cfg, "scripts": scripts}


def shrink_axes(rec):
    axes = []
    if rec.get("schedule") is not None:
        axes.append(("schedule", "schedule"))
    for i in range(len(rec["scripts"])):
        axes.append(("script%d" % i, "scripts/%d" % i))
    if rec.get("schedule") is not None:
        axes.append(("schedule", "schedule"))
    return axes


def shrinkable(violation):
    # a wall-clock timeout costs the full limit per candidate: report it un-minimised instead
    return not (violation.get("oracle") == "O5-liveness" and violation.get("cls") == "wall-timeout")


def concretize(rec, state):
    """Turn an rng-driven record into one with the explicit schedule it produced (replay = follow it verbatim)."""
    if rec.get("schedule") is not None:
        return rec
    r = state["tp"].run(rec["config"].get("hashseed", 0), {"record": rec}, timeout=150)
    if "schedule" not in r:
        return rec
    rec = copy.deepcopy(rec)
    rec["schedule"] = r["schedule"]
    rec["config"]["first"] = r["first"]
    rec["config"]["rng_strategy"] = rec["config"].get("strategy")
    return rec


def _cls(o):
    return "ok" if o[0] == "ok" else "exc(%s)" % o[1]


def execute(record, state):
    tp = state["tp"]
    cfg = record["config"]
    hs = cfg.get("hashseed", 0)
    scripts = record["scripts"]
    r = tp.run(hs, {"record": record, "log_events": bool(cfg.get("log_events"))}, timeout=150)
    faults = {"preemptions": 0, "forced_switch_on_lock": 0, "gc_injected": 0, "starvation_pct": 0, "hashseed_nonzero": 1 if hs else 0, "publication_handover": 0,
              "distinct_inputs_streamed": 0}
    probes = {"switch_in_cold_code": 0, "switch_inside_dialect_class_init": 0, "switch_inside_import": 0, "switch_inside_dispatch_build": 0,
              "switch_inside_optimizer_getattr": 0, "parked_on_import_lock": 0, "parked_on_other_lock": 0, "two_threads_same_cold_dialect": 0,
              "publication_switches": 0}
    if r.get("timeout"):
        # A wall-clock limit depends on machine load, so it is never an oracle: the run is discarded and counted by the
        # driver (runs_discarded_by_resource_guard). Hangs the simulator can see are reported deterministically instead:
        # "all live threads parked" (O5-deadlock) and the step budget (O5-liveness).
        return {"aborted": "wall-timeout"}
    if "results" not in r:
        raise common.HarnessError("child failed: %s" % json.dumps(r)[:600])
    for k in probes:
        probes[k] = r["probes"].get(k, 0)
    faults["preemptions"] = sum(1 for e in r["switch_sites"] if e[1] == "event")
    faults["forced_switch_on_lock"] = r["blocks"]
    faults["gc_injected"] = r["probes"].get("gc_injected", 0)
    faults["publication_handover"] = r["probes"].get("publication_switches", 0)
    faults["distinct_inputs_streamed"] = sum(c.get("n", 0) for s_ in scripts for c in s_ if c.get("op") == "bulk")
    if cfg.get("strategy") == "pct" and record.get("schedule") is None:
        faults["starvation_pct"] = 1
    names = [set().union(*[_names(c) for c in s]) if s else set() for s in scripts]
    shared = any(names[i] & names[j] for i in range(len(names)) for j in range(i + 1, len(names)))
    if shared:
        probes["two_threads_same_cold_dialect"] = 1
    sites = [e for e in r["switch_sites"] if e[1] == "event"]
    violation = None

    def fail(oracle, cls, step, detail):
        return {"oracle": oracle, "cls": cls, "step": step, "detail": detail, "sites": sorted(set(e[2] for e in sites))[:12]}

    if r.get("deadlock"):
        tops = sorted(set((d["stack"][-1].rsplit(":", 1)[0] if d.get("stack") else "?") for d in r["deadlock"]))
        violation = fail("O5-deadlock", "|".join(tops), 0, "all live threads are parked: " + json.dumps(r["deadlock"])[:1500])
    elif r.get("livelock"):
        violation = fail("O5-liveness", "step-budget", 0, "step budget exceeded (%d trace events)" % r["steps"])
    else:
        for ti, (script, res) in enumerate(zip(scripts, r["results"])):
            for ci, call in enumerate(script):
                want = reference(call, tp, hs)
                got = res[ci] if ci < len(res) else ["exc", "missing"]
                if got != want:
                    oracle = "O2-raised" if got[0] == "exc" and want[0] == "ok" else "O1-result"
                    violation = fail(oracle, "%s:%s->%s" % (call["op"], _cls(want), _cls(got)), ti,
                                     "thread %d call %d %s returned %s; alone in a cold process it returns %s" % (ti, ci, _show(call), _short(got), _short(want)))
                    break
            if violation:
                break
        if not violation and r.get("module_execs_gt1"):
            violation = fail("O3-exactly-once", r["module_execs_gt1"][0][0], 0, "module bodies executed more than once: %r" % r["module_execs_gt1"])
        if not violation and r.get("identity_errors"):
            violation = fail("O3-identity", r["identity_errors"][0].split(":")[0], 0, "; ".join(r["identity_errors"][:3]))
        if not violation:
            for ti, (script, res) in enumerate(zip(scripts, r.get("post", []))):
                for ci, call in enumerate(script):
                    want = reference(call, tp, hs)
                    if res[ci] != want:
                        violation = fail("O4-post-run", "%s:%s->%s" % (call["op"], _cls(want), _cls(res[ci])), ti,
                                         "after the threads finished, %s repeated sequentially in the same process returns %s; alone in a cold process it returns %s" % (_show(call), _short(res[ci]), _short(want)))
                        break
                if violation:
                    break
    return {
        "violation": violation,
        "digest": common.digest([r["results"], r["schedule"], r["steps"], r.get("evdigest")]),
        "sig": common.short_hash([[e[0], e[1], e[2]] for e in r["switch_sites"]]),
        "nontrivial": bool(shared and probes["switch_in_cold_code"] > 0),
        "steps": r["steps"],
        "faults": faults,
        "probes": probes,
        "population": ("sweep-" + cfg["sweep"].split(":")[0]) if cfg.get("sweep") else
                      ("serial" if cfg.get("strategy") == "serial" and record.get("schedule") is None else "preemptive") + ("-warm" if cfg.get("warm") else "-cold"),
        "situations": sorted(set("%s|%s" % (e[1], e[2]) for e in r["switch_sites"]))[:200],
        "counters": {"threads": len(scripts), "calls": sum(len(s) for s in scripts), "cold_code_objects": r.get("cold_code_objects", 0)},
    }


def _short(o):
    s = json.dumps(o)
    return s if len(s) < 300 else s[:300] + "..."


def _show(call):
    s = call["op"]
    for k in ("name", "rule", "read", "write"):
        if call.get(k):
            s += " %s=%s" % (k, call[k])
    if call.get("sql"):
        s += " sql=%r" % (call["sql"][:100],)
    return s


def signature(record, outcome):
    v = outcome.get("violation") or {}
    names = sorted(set().union(*[_names(c) for s in record["scripts"] for c in s])) if any(record["scripts"]) else []
    if v.get("oracle") == "O5-deadlock":
        return common.short_hash([v.get("oracle"), v.get("cls")], 8)
    return common.short_hash([v.get("oracle"), v.get("cls"), v.get("sites"), names], 8)


def describe(record, outcome):
    v = outcome["violation"]
    cfg = record["config"]
    lines = ["C19 violation [%s] %s" % (v["oracle"], v["detail"]),
             "  config: hashseed=%s strategy=%s sched_seed=%s mean_gap=%s" % (cfg.get("hashseed"), cfg.get("rng_strategy", cfg.get("strategy")), cfg.get("sched_seed"), cfg.get("mean_gap")),
             "  pre-emption sites in the minimised schedule: %s" % (v.get("sites"),)]
    for i, s in enumerate(record["scripts"]):
        lines.append("  thread %d: %s" % (i, "; ".join(_show(c) for c in s) or "(empty)"))
    sch = record.get("schedule")
    if sch is not None:
        lines.append("  schedule (%d decisions): %s" % (len(sch), json.dumps(sch)[:600]))
    return "\n".join(lines)


def simplify_record(rec, violation, state, same):
    calls = 0
    # try emptying whole threads (a thread with an empty script ends at once; indices of the others stay valid)
    for i in range(len(rec["scripts"])):
        if rec["scripts"][i]:
            r2 = copy.deepcopy(rec)
            r2["scripts"][i] = []
            calls += 1
            try:
                if same(execute(r2, state).get("violation"), violation):
                    rec = r2
            except Exception:
                pass
    for key, val in (("gc_rate", 0.0), ("hashseed", 0)):
        if rec["config"].get(key) != val:
            r2 = copy.deepcopy(rec)
            r2["config"][key] = val
            calls += 1
            try:
                if same(execute(r2, state).get("violation"), violation):
                    rec = r2
            except Exception:
                pass
    return rec, calls


def extra_coverage(good):
    strategies = {}
    for s in good:
        strategies[s.get("population", "?")] = strategies.get(s.get("population", "?"), 0) + 1
    return {"reference_table_size": len(_REFS), "interleaving_measure": "distinct_signatures_all = distinct sequences of (thread, decision kind, file:function) over all scheduler decisions of a run"}
