"""Command line: python -m sim.cli <target> [--tier T] [--replay FILE] [--digests N]"""
import argparse
import os
import sys

ENGINES = {
    "C18": "sim.schemasim.engine",
    "C08": "sim.treesim.engine",
    "C09": "sim.treesim.engine",
    "C15": "sim.histsim.engine",
    "C19": "sim.threadsim.engine",
}


def main(argv=None):
    ap = argparse.ArgumentParser()
    ap.add_argument("target")
    ap.add_argument("--tier", default=None)
    ap.add_argument("--replay", default=None)
    ap.add_argument("--digests", type=int, default=0)
    args = ap.parse_args(argv)
    tier = args.tier or os.environ.get("VERIF_TIER") or "quick"
    if tier not in ("quick", "thorough"):
        tier = "quick"

    from sim.core import common, driver

    seed = common.env_seed()
    if args.target.startswith("selftest"):
        from sim import selftests

        return selftests.main(args.target, tier, seed)
    if args.target not in ENGINES:
        print("unknown target %s" % args.target)
        return 2
    eng = ENGINES[args.target]
    if args.replay:
        return driver.replay(eng, args.target, args.replay)
    if args.digests:
        return driver.print_digests(eng, args.target, tier, seed, args.digests)
    code, _ = driver.run_check(eng, args.target, tier, seed)
    return code


if __name__ == "__main__":
    sys.exit(main())
