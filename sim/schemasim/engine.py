"""schemasim — C18: schema lookups always reflect the current registrations.

System under simulation: one MappingSchema (plus copies made from it) with its caches, trie and depth
memo, driven by a generated history of add_table / lookups / faults. Oracles after every lookup:
  O1 history-free twin (same structural ops, no earlier lookups, no evictions)   -- real code both sides
  O2 small reference model (dict of normalised paths)                              -- what the property states
  O3 fresh MappingSchema built from the SUT's final mapping                         -- the property's literal wording
A record is plain JSON; execute(record) is a pure function of it.
"""
import copy
import random

from sim.core import common

PROPS = ["C18"]
RULE = (
    "one run = one generated history (config drawn swarm-style: dialect, normalize, depth 1-3, initial mapping, "
    "visible mapping, enabled fault kinds and rate, per-call dialect/normalize overrides) of 4-40 ops over the universe "
    "catalogs{c1,c2} x dbs{d1,d2} x tables{t1,t2,T1} x columns{a,b,A} with quoted/unquoted, string/Table forms, fully or "
    "partially qualified. signature = hash(config class, op-kind sequence with qualification/quoting class). non-trivial = "
    "some lookup of a name happened BEFORE a later successful add_table that changes what that same lookup must return "
    "(new table visible, columns updated, or name became ambiguous) and the lookup was repeated afterwards."
)
COMPONENTS = {
    "real": ["sqlglot.schema.MappingSchema (all methods, caches, trie)", "sqlglot.trie", "sqlglot dialect identifier normalisation", "sqlglot parser for table/type strings"],
    "stub": ["O2 reference model uses sqlglot.schema.normalize_name as a trusted normaliser (C10's subject)"],
}
ASSUMPTIONS = [
    "identifier normalisation of the dialect is trusted (used by the O2 model); O1/O3 do not depend on it",
    "cache eviction fault clears private memo dicts by attribute name; a missing attribute means the fault is skipped",
    "match_depth=False and mappings of inconsistent depth are caller errors and are not generated",
]

CATS = ["c1", "c2", "C1"]
DBS = ["d1", "d2", "D1"]
TBLS = ["t1", "t2", "T1"]
COLS = ["a", "b", "A"]
TYPES = ["int", "text", "varchar(10)", "DT:ARRAY<INT>", "DT:DECIMAL(10, 2)", "datetime", "BAD"]
DIALECTS = [None, "snowflake", "mysql", "clickhouse", "tsql", "duckdb", "bigquery", "postgres", "oracle"]
# the same dialect class with non-default instance settings, passed per call (as a string or as a Dialect instance)
SETTINGS_DIALECTS = ["snowflake, normalization_strategy=case_sensitive", "snowflake, normalization_strategy=lowercase", "postgres, normalization_strategy=uppercase",
                     "duckdb, normalization_strategy=case_sensitive", "mysql, normalization_strategy=lowercase", "bigquery, normalization_strategy=uppercase"]
CACHES = ["_find_cache", "_normalized_table_cache", "_normalized_name_cache", "_type_mapping_cache"]
BAD_TYPE = "foo bar ((("


def plan(prop, tier):
    if tier == "thorough":
        return {"runs": 400000, "chunk": 2500, "wall_cap": 1500, "selftest": 300, "shrink_wall": 600}
    return {"runs": 24000, "chunk": 500, "wall_cap": 240, "selftest": 60, "shrink_wall": 300}


def worker_init(prop, tier):
    common.use_sqlglot()
    return None


def worker_close(state):
    pass


# --------------------------------------------------------------------------- generation


def _tspec(rng, depth, cfg, partial_ok=True, for_find=False):
    parts = [rng.choice(CATS), rng.choice(DBS), rng.choice(TBLS)][3 - depth :]
    if partial_ok and depth > 1 and rng.random() < 0.45:
        parts = parts[rng.randrange(1, depth) :]
    elif partial_ok and rng.random() < 0.04:
        parts = ["c9"] + parts  # over-qualified lookup
    qmode = rng.choice(["none", "none", "none", "all", "mixed"]) if cfg["quoting"] else "none"
    if qmode == "none":
        q = [False] * len(parts)
    elif qmode == "all":
        q = [True] * len(parts)
    else:
        q = [rng.random() < 0.5 for _ in parts]
    form = "tbl" if for_find else rng.choice(["str", "str", "tbl"])
    return {"parts": parts, "q": q, "form": form}


def _cspec(rng, cfg):
    return {
        "name": rng.choice(COLS),
        "form": rng.choice(["str", "str", "col", "ident"]),
        "q": cfg["quoting"] and rng.random() < 0.3,
    }


def _cmspec(rng, cfg):
    r = rng.random()
    if r < 0.08:
        return {"form": "none", "cols": []}
    if r < 0.14:
        return {"form": "empty", "cols": []}
    names = rng.sample(COLS, rng.randint(1, 3))
    types = [t for t in TYPES if t != "BAD" or "bad_type" in cfg["faults"]]
    cols = [[n, rng.choice(types)] for n in names]
    form = rng.choice(["dict", "dict", "dict", "str", "list"])
    if form == "str":
        cols = [[n, t if not t.startswith("DT:") and t != "BAD" and "," not in t else "int"] for n, t in cols]
    return {"form": form, "cols": cols}


def generate(prop, run_seed, tier):
    rng = random.Random(run_seed)
    faulted = rng.random() < 0.6
    all_faults = ["bad_depth", "bad_mapping", "bad_table", "bad_type", "evict", "caller_mutates_result"]
    faults = sorted(rng.sample(all_faults, rng.randint(1, len(all_faults)))) if faulted else []
    cfg = {
        "dialect": rng.choice(DIALECTS),
        "normalize": rng.random() < 0.8,
        "depth": rng.choice([1, 2, 2, 3, 3]),
        "quoting": rng.random() < 0.6,
        "visible": rng.random() < 0.25,
        "faults": faults,
        "fault_rate": rng.choice([0.02, 0.05, 0.1]) if faulted else 0.0,
        "call_dialect": rng.choice(DIALECTS + SETTINGS_DIALECTS) if rng.random() < 0.18 else "same",
        "call_dialect_as_instance": rng.random() < 0.4,
        "call_normalize": rng.random() < 0.15,
        "copies": False,
        "add_weight": rng.choice([0.15, 0.3, 0.45]),
    }
    cfg["copies"] = cfg["normalize"] and rng.random() < 0.2  # copy() shares inner dicts when normalize=False (outside C18)
    depth = cfg["depth"]
    init = []
    if rng.random() < 0.5:
        for _ in range(rng.randint(1, 3)):
            t = _tspec(rng, depth, cfg, partial_ok=False)
            cm = _cmspec(rng, dict(cfg, faults=[]))
            if cm["form"] in ("none", "empty", "list", "str"):
                cm = {"form": "dict", "cols": [[rng.choice(COLS), rng.choice(TYPES[:3])]]}
            key = tuple(p.lower() for p in t["parts"])
            if key in [tuple(p.lower() for p in x["parts"]) for x in init]:
                continue  # the constructor merges colliding paths; keep the initial mapping unambiguous
            seen_c = set()
            cols = [c for c in cm["cols"] if not (c[0].lower() in seen_c or seen_c.add(c[0].lower()))]
            init.append({"parts": t["parts"], "cols": cols})
    cfg["init"] = init
    if cfg["visible"]:
        cfg["visible_cols"] = rng.sample(COLS, rng.randint(1, 2))
    ops = []
    n = rng.randint(4, 40)
    for _ in range(n):
        r = rng.random()
        op = None
        if faults and rng.random() < cfg["fault_rate"]:
            kind = rng.choice(faults)
            if kind == "evict":
                op = {"k": "evict", "cache": rng.choice(CACHES + ["all"])}
            elif kind == "bad_depth":
                t = _tspec(rng, depth, cfg, partial_ok=False)
                if depth > 1 and (depth == 3 or rng.random() < 0.5):
                    t["parts"] = t["parts"][1:]
                    t["q"] = t["q"][1:]
                else:
                    t["parts"] = ["x9"] + t["parts"]
                    t["q"] = [False] + t["q"]
                op = {"k": "add", "t": t, "cm": _cmspec(rng, cfg), "fault": "bad_depth"}
            elif kind == "bad_mapping":
                op = {"k": "add", "t": _tspec(rng, depth, cfg, partial_ok=False), "cm": {"form": "invalid", "cols": []}, "fault": "bad_mapping"}
            elif kind == "bad_table":
                op = {"k": "add", "t": {"parts": ["t1 t2 ((("], "q": [False], "form": "raw"}, "cm": _cmspec(rng, cfg), "fault": "bad_table"}
            elif kind == "bad_type":
                t = _tspec(rng, depth, cfg, partial_ok=False)
                op = {"k": "add", "t": t, "cm": {"form": "dict", "cols": [[rng.choice(COLS), "BAD"], [rng.choice(COLS), "int"]]}, "fault": "bad_type"}
        if op is None:
            if r < cfg["add_weight"]:
                op = {"k": "add", "t": _tspec(rng, depth, cfg, partial_ok=False), "cm": _cmspec(rng, cfg)}
            elif cfg["copies"] and r < cfg["add_weight"] + 0.04:
                op = {"k": "copy", "how": rng.choice(["copy", "from_mapping_schema"])}
            else:
                k = rng.choice(["cols", "cols", "type", "type", "has", "find"])
                if k == "cols":
                    op = {"k": "cols", "t": _tspec(rng, depth, cfg), "only_visible": rng.random() < 0.3}
                    if "caller_mutates_result" in faults and rng.random() < 0.35:
                        # the caller goes on to use the list it was handed as its own (sorts it, appends to it, empties it)
                        op["mut"] = rng.choice(["append", "clear", "reverse", "pop"])
                elif k in ("type", "has"):
                    op = {"k": k, "t": _tspec(rng, depth, cfg), "c": _cspec(rng, cfg)}
                else:
                    op = {"k": "find", "t": _tspec(rng, depth, cfg, for_find=True), "rom": rng.random() < 0.5, "edt": rng.random() < 0.5}
        op["s"] = rng.randrange(8)  # schema selector, modulo number of live schemas
        if op["k"] not in ("evict", "copy", "find"):
            if cfg["call_dialect"] != "same" and rng.random() < 0.4:
                op["dialect"] = cfg["call_dialect"]
                if cfg["call_dialect_as_instance"] and cfg["call_dialect"]:
                    op["dialect_obj"] = True
            if cfg["call_normalize"] and rng.random() < 0.3:
                op["normalize"] = rng.random() < 0.5
        ops.append(op)
    return {"engine": "schemasim", "config": cfg, "ops": ops}


# --------------------------------------------------------------------------- interpretation


def _mk_table(spec, dialect):
    from sqlglot import exp

    if spec["form"] == "raw":
        return spec["parts"][0]
    ids = [exp.to_identifier(p, quoted=bool(q)) for p, q in zip(spec["parts"], spec["q"])]
    if len(ids) <= 3:
        kw = dict(zip(["this", "db", "catalog"], reversed(ids)))
        tbl = exp.Table(**kw)
    else:
        kw = dict(zip(["this", "db"], reversed(ids[-2:])))
        tbl = exp.Table(catalog=exp.Dot.build(ids[:-2]) if len(ids) > 3 else ids[0], **kw)
    if spec["form"] == "str":
        return tbl.sql(dialect=dialect)
    return tbl


def _mk_col(spec, dialect):
    from sqlglot import exp

    ident = exp.to_identifier(spec["name"], quoted=bool(spec["q"]))
    if spec["form"] == "str":
        return ident.sql(dialect=dialect) if spec["q"] else spec["name"]
    if spec["form"] == "ident":
        return exp.column(ident)
    return exp.column(ident, table="x")


def _mk_type(t):
    from sqlglot import exp

    if t == "BAD":
        return BAD_TYPE
    if t.startswith("DT:"):
        return exp.DataType.build(t[3:])
    return t


def _mk_cm(spec):
    if spec["form"] == "none":
        return None
    if spec["form"] == "empty":
        return {}
    if spec["form"] == "invalid":
        return 5
    if spec["form"] == "dict":
        return {n: _mk_type(t) for n, t in spec["cols"]}
    if spec["form"] == "str":
        return ", ".join("%s: %s" % (n, t) for n, t in spec["cols"])
    if spec["form"] == "list":
        return [n for n, _ in spec["cols"]]
    raise ValueError(spec["form"])


def _canon(f):
    from sqlglot import exp

    try:
        r = f()
    except Exception as e:  # noqa
        return ["exc", type(e).__name__]
    if isinstance(r, exp.Expr):
        return ["ok", "E:" + r.sql()]
    if isinstance(r, dict):
        return ["ok", [[k, ("E:" + v.sql()) if isinstance(v, exp.Expr) else v] for k, v in r.items()]]
    if isinstance(r, (list, tuple)):
        return ["ok", list(r)]
    return ["ok", r]


def _kw(op, cfg, force_normalize=None):
    kw = {}
    if "dialect" in op:
        kw["dialect"] = op["dialect"]
        if op.get("dialect_obj"):
            from sqlglot.dialects.dialect import Dialect

            kw["dialect"] = Dialect.get_or_raise(op["dialect"])  # a Dialect INSTANCE carrying its own settings
    if "normalize" in op:
        kw["normalize"] = op["normalize"]
    if force_normalize is not None and "normalize" not in kw:
        kw["normalize"] = force_normalize
    return kw


def _apply(schema, op, cfg, force_normalize=None):
    from sqlglot import exp

    k = op["k"]
    d = op.get("dialect", cfg["dialect"])
    if k == "add":
        return _canon(lambda: schema.add_table(_mk_table(op["t"], d), _mk_cm(op["cm"]), **_kw(op, cfg)))
    if k == "cols":
        def fc():
            r = schema.column_names(_mk_table(op["t"], d), only_visible=op["only_visible"], **_kw(op, cfg, force_normalize))
            snap = list(r)
            m = op.get("mut")
            if m and isinstance(r, list):
                if m == "append":
                    r.append("zz_caller")
                elif m == "clear":
                    r.clear()
                elif m == "reverse":
                    r.reverse()
                elif r:
                    r.pop()
            return snap
        return _canon(fc)
    if k == "type":
        return _canon(lambda: schema.get_column_type(_mk_table(op["t"], d), _mk_col(op["c"], d), **_kw(op, cfg, force_normalize)))
    if k == "has":
        return _canon(lambda: schema.has_column(_mk_table(op["t"], d), _mk_col(op["c"], d), **_kw(op, cfg, force_normalize)))
    if k == "find":
        def f():
            t = _mk_table(op["t"], d)
            nt = schema._normalize_table(t) if force_normalize is None else schema._normalize_table(t, normalize=force_normalize)
            return schema.find(nt, raise_on_missing=op["rom"], ensure_data_types=op["edt"])
        return _canon(f)
    raise ValueError(k)


def _new_schema(cfg):
    from sqlglot.schema import MappingSchema

    depth = cfg["depth"]
    mapping = {}
    for t in cfg["init"]:
        cur = mapping
        for p in t["parts"][:-1]:
            cur = cur.setdefault(p, {})
        cur[t["parts"][-1]] = {n: _mk_type(ty) for n, ty in t["cols"] if ty != "BAD"} or {"a": "int"}
    visible = None
    if cfg["visible"]:
        visible = {}
        names = [CATS, DBS, TBLS][3 - depth :]

        def build(level):
            if level == len(names):
                return set(cfg["visible_cols"])
            return {n: build(level + 1) for n in names[level]}

        visible = build(0)
    return MappingSchema(mapping or None, visible=visible, dialect=cfg["dialect"], normalize=cfg["normalize"])


def _structural_replay(cfg, structural, upto_schema):
    """History-free twin world: replay only adds and copies; return twin of schema `upto_schema`."""
    world = [_new_schema(cfg)]
    for op in structural:
        idx = op["s"] % len(world)
        if op["k"] == "add":
            _apply(world[idx], op, cfg)
        elif op["k"] == "copy":
            world.append(_do_copy(world[idx], op))
    return world[upto_schema]


def _do_copy(schema, op):
    from sqlglot.schema import MappingSchema

    if op["how"] == "copy":
        return schema.copy()
    return MappingSchema.from_mapping_schema(schema)


# --------------------------------------------------------------------------- O2 model


class Model:
    """normalised full path (tuple, table last) -> ordered {col: type}. Only what the property states."""

    def __init__(self, cfg):
        self.cfg = cfg
        self.tables = {}
        self.tainted = False
        self.depth = None
        for t in cfg["init"]:
            path = tuple(self.norm(p, False, True, None, None) for p in t["parts"])
            cols = {}
            for n, ty in t["cols"]:
                if ty != "BAD":
                    cols[self.norm(n, False, False, None, None)] = ty
            if not cols:
                cols = {self.norm("a", False, False, None, None): "int"}
            self.tables.setdefault(path, {}).update(cols)
            self.depth = len(path)

    def norm(self, name, quoted, is_table, dialect, normalize):
        from sqlglot import exp
        from sqlglot.schema import normalize_name

        normalize = self.cfg["normalize"] if normalize is None else normalize
        dialect = dialect or self.cfg["dialect"]
        ident = exp.to_identifier(name, quoted=bool(quoted))
        return normalize_name(ident, dialect=dialect, is_table=is_table, normalize=normalize).name

    def path(self, op):
        t = op["t"]
        return tuple(self.norm(p, q, True, op.get("dialect"), op.get("normalize")) for p, q in zip(t["parts"], t["q"]))

    def add(self, op, result):
        if op["t"]["form"] == "raw" or op["cm"]["form"] == "invalid":
            return
        path = self.path(op)
        if self.tables and self.depth is not None and len(path) != self.depth:
            return
        if result[0] == "exc":
            self.tainted = True  # an add we believed valid failed: stop asserting O2 (O1/O3 stay strict)
            return
        if not self.tables:
            self.depth = len(path)
        cols = {}
        for n, ty in op["cm"]["cols"]:
            key = self.norm(n, False, False, op.get("dialect"), op.get("normalize"))
            cols[key] = None if op["cm"]["form"] == "list" else ty
        if path in self.tables and self.tables[path] and not cols:
            return
        self.tables[path] = cols

    def resolve(self, op):
        """-> ('found', cols) | ('ambiguous',) | ('missing',) | ('skip',)"""
        if self.depth is None or not self.tables:
            return ("missing",)
        path = self.path(op)
        if len(path) > self.depth:
            path = path[len(path) - self.depth :]
        matches = [p for p in self.tables if p[len(p) - len(path) :] == path]
        if len(matches) == 1:
            return ("found", self.tables[matches[0]])
        if not matches:
            return ("missing",)
        return ("ambiguous",)

    def expect(self, op):
        r = self.resolve(op)
        k = op["k"]
        if k == "cols":
            if op["only_visible"] and self.cfg["visible"]:
                return None
            if r[0] == "found":
                return ["ok", list(r[1])]
            if r[0] == "ambiguous":
                return ["exc", "SchemaError"]
            return ["ok", []]
        if k in ("type", "has"):
            c = op["c"]
            name = self.norm(c["name"], c["q"], False, op.get("dialect"), op.get("normalize"))
            present = r[0] == "found" and name in r[1]
            if k == "has":
                return ["ok", present]
            if not present:
                return ["ok", "E:UNKNOWN"]
            ty = r[1][name]
            if ty is None:
                return ["ok", "E:UNKNOWN"]
            if ty == "BAD":
                return None  # whether a junk type string parses depends on the dialect's UDT support
            return ["notunknown"]
        if k == "find":
            if r[0] == "found":
                if op["edt"] and "BAD" in r[1].values():
                    return None
                return ["keys", list(r[1])]
            if r[0] == "ambiguous":
                return ["exc", "SchemaError"] if op["rom"] else ["ok", None]
            return ["ok", None]
        return None


def _o2_agrees(want, got):
    if want is None:
        return True
    if want[0] == "notunknown":
        return got[0] == "ok" and got[1] != "E:UNKNOWN"
    if want[0] == "keys":
        return got[0] == "ok" and isinstance(got[1], list) and [k for k, _ in got[1]] == want[1]
    return want == got


# --------------------------------------------------------------------------- execution


def execute(record, state=None):
    from sqlglot.schema import MappingSchema

    cfg = record["config"]
    ops = record["ops"]
    results = []
    faults = {"bad_depth": 0, "bad_mapping": 0, "bad_table": 0, "bad_type": 0, "evict": 0, "failed_lookup": 0, "lookup_before_registration": 0, "caller_mutates_result": 0}
    probes = {"lookup_then_update_same": 0, "lookup_then_ambiguous": 0, "quoted_then_unquoted_same_name": 0,
              "failed_add_then_lookup": 0, "eviction_fired": 0, "o3_checked": 0, "o2_checked": 0, "o1_checked": 0, "copies": 0,
              "call_dialect_lookup": 0}
    violation = None
    try:
        world = [_new_schema(cfg)]
    except Exception as e:  # constructor rejects the generated initial mapping: trivial run, not a violation
        return {"violation": None, "digest": common.digest(["ctor", type(e).__name__]), "sig": "ctor-exc", "nontrivial": False,
                "steps": 0, "faults": faults, "probes": probes, "population": "faulted" if cfg["faults"] else "fault_free"}
    model = Model(cfg)
    model_ok = True  # O2 only follows schema 0 and is dropped once a copy exists on it being targeted
    structural = []
    seen_lookup = {}  # (schema idx, lookup key) -> last canonical result
    seen_names = {}
    nontrivial = False
    failed_add = False
    sig_ops = []
    for step, op in enumerate(ops):
        idx = op["s"] % len(world)
        sut = world[idx]
        k = op["k"]
        sig_ops.append(_op_class(op))
        if k == "evict":
            names = CACHES if op["cache"] == "all" else [op["cache"]]
            for nme in names:
                c = getattr(sut, nme, None)
                if isinstance(c, dict):
                    c.clear()
                    faults["evict"] += 1
                    probes["eviction_fired"] += 1
            results.append(["evict"])
            continue
        if k == "copy":
            try:
                world.append(_do_copy(sut, op))
                structural.append(op)
                probes["copies"] += 1
                results.append(["copy", "ok"])
            except Exception as e:
                results.append(["copy", type(e).__name__])
            continue
        if k == "add":
            got = _apply(sut, op, cfg)
            results.append(got)
            structural.append(op)
            if op.get("fault") and (got[0] == "exc" or op["fault"] == "bad_type"):
                faults[op["fault"]] += 1
                failed_add = failed_add or got[0] == "exc"
            if idx == 0:
                model.add(op, got)
            continue
        # ---- lookup
        got = _apply(sut, op, cfg)
        results.append(got)
        if got[0] == "exc":
            faults["failed_lookup"] += 1
        if op.get("mut") and got[0] == "ok":
            faults["caller_mutates_result"] += 1
        if failed_add:
            probes["failed_add_then_lookup"] += 1
        if "dialect" in op:
            probes["call_dialect_lookup"] += 1
        lk = (idx, _lookup_key(op))
        if lk in seen_lookup and seen_lookup[lk] != got:
            nontrivial = True
            probes["lookup_then_update_same"] += 1
            if got[0] == "exc" and got[1] == "SchemaError":
                probes["lookup_then_ambiguous"] += 1
        if lk not in seen_lookup and got in (["ok", []], ["ok", None], ["ok", False], ["ok", "E:UNKNOWN"]):
            faults["lookup_before_registration"] += 1
        seen_lookup[lk] = got
        nk = (idx, tuple(op["t"]["parts"]))
        qs = tuple(op["t"]["q"])
        if nk in seen_names and seen_names[nk] != qs:
            probes["quoted_then_unquoted_same_name"] += 1
        seen_names[nk] = qs

        # O1: history-free twin
        twin = _structural_replay(cfg, structural, idx)
        want = _apply(twin, op, cfg)
        probes["o1_checked"] += 1
        if got != want:
            violation = {"oracle": "O1-twin", "cls": "%s:%s->%s" % (k, _rc(want), _rc(got)), "step": step,
                         "detail": "lookup %s on schema %d: with earlier lookups got %r, history-free twin gives %r" % (_show(op), idx, got, want)}
            break
        # O2: reference model (schema 0 only)
        if idx == 0 and not model.tainted and "dialect" not in op:
            w2 = model.expect(op)
            probes["o2_checked"] += 1 if w2 is not None else 0
            if not _o2_agrees(w2, got):
                violation = {"oracle": "O2-model", "cls": "%s:%s->%s" % (k, _rc(w2), _rc(got)), "step": step,
                             "detail": "lookup %s: got %r, model of current registrations says %r (tables=%r)" % (_show(op), got, w2, {".".join(p): list(c) for p, c in model.tables.items()})}
                break
        # O3: fresh schema from the SUT's final mapping
        if sut.mapping and k != "find" and _all_nonempty(sut.mapping, sut.depth()):
            try:
                fresh = MappingSchema(copy.deepcopy(sut.mapping), visible=copy.deepcopy(sut.visible) or None, dialect=cfg["dialect"], normalize=False)
            except Exception:
                fresh = None
            if fresh is not None:
                eff_norm = op.get("normalize", cfg["normalize"])
                op3 = dict(op)
                op3.pop("normalize", None)
                want3 = _apply(fresh, op3, cfg, force_normalize=eff_norm)
                probes["o3_checked"] += 1
                if got != want3:
                    violation = {"oracle": "O3-fresh", "cls": "%s:%s->%s" % (k, _rc(want3), _rc(got)), "step": step,
                                 "detail": "lookup %s on schema %d: got %r, a schema freshly built from the final mapping %r gives %r" % (_show(op), idx, got, sut.mapping, want3)}
                    break
    ops_done = len(results)
    return {
        "violation": violation,
        "digest": common.digest(results),
        "sig": common.short_hash([_cfg_class(cfg), sig_ops]),
        "nontrivial": nontrivial,
        "steps": ops_done,
        "faults": faults,
        "probes": probes,
        "population": "faulted" if cfg["faults"] else "fault_free",
        "situations": sorted(set("%s|%s" % (_cfg_class(cfg), s) for s in sig_ops)),
    }


def _all_nonempty(mapping, depth):
    def walk(d, level):
        if level == depth:
            return bool(d)
        return all(isinstance(v, dict) and walk(v, level + 1) for v in d.values())

    try:
        return walk(mapping, 0) if depth else False
    except Exception:
        return False


def _rc(r):
    if r is None:
        return "-"
    if r[0] == "exc":
        return "exc(%s)" % r[1]
    if r[0] != "ok":
        return r[0]
    v = r[1]
    if v in ([], None, False, "E:UNKNOWN"):
        return "absent"
    return "present"


def _lookup_key(op):
    return common.short_hash({k: v for k, v in op.items() if k != "s"})


def _op_class(op):
    k = op["k"]
    if k in ("evict", "copy"):
        return k
    t = op["t"]
    return "%s/%d/%s/%s%s" % (k, len(t["parts"]), t["form"], "q" if any(t["q"]) else "u", "/F" if op.get("fault") else "")


def _cfg_class(cfg):
    return "%s/%s/d%d" % (cfg["dialect"], "n" if cfg["normalize"] else "r", cfg["depth"])


def _show(op):
    t = op["t"]
    name = ".".join(('"%s"' % p) if q else p for p, q in zip(t["parts"], t["q"]))
    s = "%s(%s[%s]" % (op["k"], name, t["form"])
    if "c" in op:
        c = op["c"]
        s += ", %s[%s]" % (('"%s"' % c["name"]) if c["q"] else c["name"], c["form"])
    for x in ("only_visible", "rom", "edt", "dialect", "normalize"):
        if x in op and op[x] not in (False, None):
            s += ", %s=%s" % (x, op[x])
    if "cm" in op:
        s += ", %s%r" % (op["cm"]["form"], op["cm"]["cols"])
    return s + ")"


def signature(record, outcome):
    v = outcome.get("violation") or {}
    kinds = sorted(_op_class(op).split("/")[0] for op in record["ops"])
    return common.short_hash([v.get("oracle"), v.get("cls"), kinds, record["config"].get("call_dialect") != "same"], 8)


def describe(record, outcome):
    v = outcome.get("violation")
    cfg = record["config"]
    lines = ["C18 violation [%s] at op %s: %s" % (v["oracle"], v["step"], v["detail"]),
             "  config: dialect=%s normalize=%s depth=%s init=%r" % (cfg["dialect"], cfg["normalize"], cfg["depth"], cfg["init"]),
             "  minimised history (%d ops):" % len(record["ops"])]
    for i, op in enumerate(record["ops"]):
        lines.append("    %2d. %s" % (i, _show(op) if "t" in op else op))
    return "\n".join(lines)


def simplify_record(rec, violation, state, same):
    """After ddmin on ops: try turning swarm options off / defaults, keeping the violation class."""
    calls = 0
    for key, val in (("visible", False), ("init", []), ("call_dialect", "same"), ("copies", False)):
        if rec["config"].get(key) == val:
            continue
        r2 = copy.deepcopy(rec)
        r2["config"][key] = val
        calls += 1
        try:
            if same(execute(r2, state).get("violation"), violation):
                rec = r2
        except Exception:
            pass
    return rec, calls
