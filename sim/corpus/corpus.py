"""SQL corpus shared by the engines.

Built-in statements are always available. When <root>/tests (or /repo/tests) exists, dialect-tagged statements are
extracted *statically* (with `ast`, nothing is executed) from tests/dialects/*.py plus the fixture files.
Records always embed the SQL text itself, so a replay file never depends on the corpus.
"""
import ast
import glob
import os

from sim.core import common

SCHEMA = {
    "mixed": {"foo": "INT", "Bar": "INT", "BAZ": "TEXT"},
    "x": {"a": "INT", "b": "INT"},
    "y": {"b": "INT", "c": "INT"},
    "z": {"a": "INT", "c": "TEXT"},
    "w": {"d": "TEXT", "e": "DATE"},
}

# (dialect, sql). Queries over SCHEMA come first: they are what optimizer rules and lineage are run on.
SCHEMA_QUERIES = [
    "SELECT a, b FROM x WHERE a > 1 AND NOT (b < 2 OR a = 3)",
    "WITH q AS (SELECT a, b FROM x) SELECT q.a, y.c FROM q JOIN y ON q.b = y.b WHERE y.c IN (SELECT c FROM z WHERE z.a = q.a)",
    "SELECT * FROM (SELECT a, SUM(b) AS s FROM x GROUP BY a) t LEFT JOIN y USING (b) WHERE t.s > 1 ORDER BY 1 LIMIT 3",
    "SELECT a FROM x UNION ALL SELECT c FROM y ORDER BY 1",
    "SELECT x.a, (SELECT MAX(c) FROM y WHERE y.b = x.b) AS m FROM x WHERE EXISTS (SELECT 1 FROM z WHERE z.a = x.a)",
    "SELECT a + 1 AS a1, COALESCE(b, 0) AS b0 FROM x WHERE TRUE AND a = a AND (b = 1 OR b = 1)",
    "SELECT x.a, y.c FROM x, y WHERE x.b = y.b AND y.c > 2 AND 1 = 1",
    "SELECT a, COUNT(*) AS n FROM x GROUP BY a HAVING COUNT(*) > 1 ORDER BY n DESC",
    "SELECT CASE WHEN a > 1 THEN 'p' WHEN a > 1 THEN 'q' ELSE 'r' END AS k, CAST(b AS TEXT) FROM x",
    "SELECT a FROM x WHERE b IN (1, 2, 3) AND b BETWEEN 0 AND 10 AND NOT a IS NULL",
    "WITH c1 AS (SELECT a FROM x), c2 AS (SELECT a FROM x) SELECT c1.a FROM c1 JOIN c2 ON c1.a = c2.a",
    "SELECT * FROM x JOIN y ON x.b = y.b JOIN z ON z.a = x.a WHERE z.c = 'k'",
    "SELECT d, e FROM w WHERE e > CAST('2020-01-01' AS DATE) AND d LIKE 'a%'",
    "SELECT SUM(b) OVER (PARTITION BY a ORDER BY b) AS s, ROW_NUMBER() OVER (ORDER BY a) AS r FROM x",
    "SELECT a FROM (SELECT a, b FROM x WHERE b > 1) AS s WHERE s.a < 5 AND TRUE",
    "SELECT a, b FROM x WHERE (a = 1 AND b = 2) OR (a = 1 AND b = 3)",
    "SELECT DISTINCT a FROM x ORDER BY a LIMIT 10 OFFSET 2",
    "SELECT x.a FROM x LEFT JOIN y ON x.b = y.b WHERE y.c IS NULL",
    "SELECT a FROM x WHERE a = (SELECT MAX(a) FROM z)",
    "SELECT -a, a * (b + 2) / 3, a % 2, NOT a > b FROM x",
    "SELECT x.a + x.b + y.c + z.c AS s, x.a * y.b AS p FROM x JOIN y ON x.b = y.b JOIN z ON z.a = x.a",
    "SELECT COALESCE(x.a, x.b, y.b, y.c) AS k, CASE WHEN x.a > y.c THEN x.b ELSE y.b END AS m FROM x JOIN y ON x.b = y.b",
    "SELECT * FROM mixed",
    "SELECT m.*, x.a FROM mixed AS m JOIN x ON x.a = m.foo",
    "SELECT foo, Bar, BAZ FROM mixed WHERE Bar > 1",
]

GENERAL = [
    (None, "SELECT a, b + 1 AS c FROM t WHERE x = 1 AND y IN (1, 2, 3) ORDER BY a LIMIT 5"),
    (None, "SELECT CASE WHEN a > 1 THEN 'x' ELSE 'y' END, CAST(b AS INT), COALESCE(c, d, 0) FROM t"),
    (None, "SELECT * FROM (SELECT a FROM t UNION ALL SELECT b FROM u) s WHERE s.a BETWEEN 1 AND 2"),
    (None, "INSERT INTO t (a, b) VALUES (1, 'x'), (2, 'y')"),
    (None, "CREATE TABLE t (a INT, b TEXT)"),
    (None, "CREATE TEMPORARY TABLE t (a INT) COMMENT 'x'"),
    (None, "SELECT f(a, g(b, 1)), SUM(x) OVER (PARTITION BY a ORDER BY b) FROM t"),
    (None, "UPDATE t SET a = 1, b = b + 1 WHERE c > 2"),
    (None, "DELETE FROM t WHERE a IN (SELECT a FROM u)"),
    (None, "SELECT /* c1 */ a /* c2 */, b -- trailing\nFROM t"),
    (None, "MERGE INTO t USING s ON t.id = s.id WHEN MATCHED THEN UPDATE SET t.a = s.a WHEN NOT MATCHED THEN INSERT (id, a) VALUES (s.id, s.a)"),
    (None, "SELECT a FROM t1 CROSS JOIN t2 LEFT JOIN t3 ON t1.a = t3.a WHERE EXISTS (SELECT 1)"),
    (None, "ALTER TABLE t ADD COLUMN c INT"),
    (None, "SELECT x[1], y['k'], z.f.g, INTERVAL '1' DAY FROM t"),
    ("duckdb", "SELECT EPOCH_MS(x), x // 2, STRFTIME(d, '%Y-%m-%d') FROM t QUALIFY ROW_NUMBER() OVER (ORDER BY x) = 1"),
    ("duckdb", "SELECT [1, 2, 3], {'a': 1}, LIST_VALUE(1), x::INT FROM t"),
    ("postgres", "SELECT a::INT, b FROM t WHERE c ILIKE '%x%' AND d ~ 'r' LIMIT 3"),
    ("postgres", "SELECT $$abc$$, e'x\\n', \"q\" FROM t -- c"),
    ("snowflake", "SELECT IFF(a > 1, 'x', 'y'), ARRAY_SIZE(b), c:d::string FROM t"),
    ("snowflake", "SELECT NULLIFZERO(a), ZEROIFNULL(b) FROM t"),
    ("snowflake", "SELECT * FROM t, LATERAL FLATTEN(input => t.v) f"),
    ("spark", "SELECT DATE_ADD(d, 1), `a` FROM t LATERAL VIEW EXPLODE(z) u AS v"),
    ("hive", "SELECT a FROM t DISTRIBUTE BY a SORT BY b"),
    ("tsql", "SELECT TOP 3 [a], GETDATE(), ISNULL(b, 0) FROM t"),
    ("mysql", "SELECT `a`, IFNULL(b, 1), x -> '$.a', DATE_FORMAT(d, '%Y') FROM t"),
    ("bigquery", "SELECT * FROM UNNEST([1, 2]) AS x"),
    ("bigquery", "SELECT SAFE_CAST(a AS INT64), `p.d.t`.c, ARRAY<STRUCT<a INT64>>[STRUCT(1)] FROM `p.d.t`"),
    ("bigquery", "FROM x |> WHERE a > 1 |> SELECT a, b |> AGGREGATE SUM(b) AS s GROUP BY a"),
    ("bigquery", "SELECT * FROM (SELECT 1 AS alpha, 2 AS beta, 3 AS gamma, 4 AS delta INNER UNION ALL BY NAME SELECT 3 AS gamma, 2 AS beta, 1 AS alpha, 4 AS delta) AS t"),
    ("bigquery", "SELECT 1 AS a, 2 AS b, 3 AS c FULL UNION ALL BY NAME SELECT 4 AS c, 5 AS d, 6 AS a"),
    ("duckdb", "SELECT 1 AS a, 2 AS b UNION ALL BY NAME SELECT 3 AS b, 4 AS c"),
    (None, "SELECT * FROM a NATURAL JOIN b JOIN c USING (k1, k2, k3)"),
    (None, "SELECT a FROM t UNION SELECT a FROM u ORDER BY a LIMIT 3 OFFSET 1"),
    (None, "(SELECT a FROM t) EXCEPT (SELECT a FROM u) ORDER BY 1 DESC LIMIT 2"),
    ("duckdb", "SELECT JSON_EXTRACT(x, '$.a[0]'), JSON_EXTRACT(x, '$.a[*].b'), JSON_EXTRACT(x, '$..c') FROM t"),
    ("mysql", "SELECT JSON_EXTRACT(x, '$.a[1]'), x -> '$.b[0].c' FROM t"),
    (None, "SELECT t.*, u.* EXCEPT (k) FROM t JOIN u ON t.k = u.k"),
    ("clickhouse", "SELECT toDate(x), arrayJoin(y), z FROM t FINAL PREWHERE a = 1"),
    ("oracle", "SELECT NVL(a, b), SYSDATE FROM dual WHERE ROWNUM < 3"),
    ("presto", "SELECT APPROX_DISTINCT(a), ELEMENT_AT(m, 'k'), TRY_CAST(b AS BIGINT) FROM t"),
    ("trino", "SELECT JSON_EXTRACT_SCALAR(j, '$.a'), DATE_TRUNC('day', ts) FROM t"),
    ("redshift", "SELECT a::INT, GETDATE(), LISTAGG(b, ',') FROM t"),
    ("sqlite", "SELECT a, IFNULL(b, 1) FROM t WHERE c GLOB '*x*'"),
    ("teradata", "SELECT a FROM t SAMPLE 5"),
    ("starrocks", "SELECT `a`, IFNULL(b, 1) FROM t"),
    ("doris", "SELECT `a`, IFNULL(b, 1) FROM t"),
    ("databricks", "SELECT a:b.c, DATE_ADD(d, 1) FROM t"),
    ("athena", "SELECT a FROM t WHERE b = 1"),
    ("materialize", "SELECT a::INT FROM t"),
    ("risingwave", "SELECT a::INT FROM t"),
    ("singlestore", "SELECT `a`, b :> INT FROM t"),
    ("exasol", "SELECT ZEROIFNULL(a) FROM t"),
    ("fabric", "SELECT TOP 3 [a] FROM t"),
    ("dremio", "SELECT a FROM t LIMIT 3"),
    ("drill", "SELECT `a` FROM t"),
    ("druid", "SELECT a FROM t"),
    ("dune", "SELECT a FROM t"),
    ("spark2", "SELECT DATE_ADD(d, 1), `a` FROM t"),
    ("tableau", "SELECT a FROM t"),
    ("prql", "from x"),
    ("solr", "SELECT a FROM t"),
]

SNIPPETS = ["1", "'s'", "a + b", "f(x)", "NOT z", "x AND y", "c.d", "CAST(q AS TEXT)", "(SELECT 1)", "CASE WHEN p THEN 1 END",
            "NULL", "TRUE", "x IN (1, 2)", "COUNT(*)", "t.*", "a = a", "x BETWEEN 1 AND 2", "-y", "u || v", "COALESCE(m, n)"]

# Inputs known to touch per-instance state of Parser / Generator / Tokenizer (name counters, CTE counters, error lists,
# unsupported-message lists, speculative parsing, JSON-path quoting toggles). Used to make reuse of components observable.
STATEFUL = [
    ("bigquery", "SELECT * FROM UNNEST([1, 2]) AS x"),
    ("bigquery", "SELECT * FROM UNNEST([1, 2]) AS x, UNNEST([3, 4]) AS y"),
    ("bigquery", "SELECT x FROM t, UNNEST(t.arr) AS x WITH OFFSET AS o"),
    ("bigquery", "FROM x |> WHERE a > 1 |> SELECT a"),
    ("bigquery", "FROM x |> SELECT a, b |> AGGREGATE SUM(b) AS s GROUP BY a |> ORDER BY s"),
    ("bigquery", "SELECT JSON_EXTRACT(j, '$.a.b'), JSON_EXTRACT_SCALAR(j, \"$['k k']\") FROM t"),
    ("bigquery", "SELECT CAST(x AS STRUCT<a INT64, b ARRAY<STRING>>) FROM t"),
    ("snowflake", "SELECT * FROM t, LATERAL FLATTEN(input => t.v)"),
    ("snowflake", "SELECT FILTER(arr, x -> x > 1), TRANSFORM(arr, (a, b) -> a + b) FROM t"),
    ("presto", "SELECT * FROM UNNEST(ARRAY[1, 2]) AS t(x) CROSS JOIN UNNEST(ARRAY[3]) WITH ORDINALITY"),
    ("spark", "SELECT EXPLODE(arr), POSEXPLODE(arr2) FROM t"),
    ("spark", "SELECT * FROM t LATERAL VIEW EXPLODE(arr) u AS v LATERAL VIEW POSEXPLODE(b) w AS p, q"),
    ("duckdb", "SELECT UNNEST([1, 2]), LIST_TRANSFORM(l, x -> x + 1) FROM t"),
    ("postgres", "SELECT a ILIKE 'x', b ~* 'r', c @> ARRAY[1], GENERATE_SERIES(1, 3) FROM t"),
    ("postgres", "SELECT * FROM GENERATE_SERIES(1, 3)"),
    ("tsql", "SELECT TOP 3 PERCENT WITH TIES a FROM t ORDER BY a"),
    ("mysql", "SELECT a FROM t FORCE INDEX (i) WHERE MATCH(b) AGAINST('x' IN BOOLEAN MODE)"),
    ("oracle", "SELECT a FROM t CONNECT BY PRIOR a = b START WITH c = 1"),
    ("clickhouse", "SELECT a FROM t ARRAY JOIN arr AS x SETTINGS max_threads = 1"),
    (None, "SELECT * FROM (VALUES (1, 2), (3, 4))"),
    (None, "SELECT * FROM (SELECT 1) CROSS JOIN (SELECT 2)"),
    (None, "SELECT a FROM t WHERE b = :p1 AND c = ? AND d = @v"),
    (None, "SELECT x[1:2], INTERVAL '1' DAY + d, DATE '2020-01-01', {'a': 1} FROM t"),
    # constructs parsed speculatively (Parser._try_parse switches the error level and must switch it back): see SPECULATIVE
    ("mysql", "SELECT a FROM t LIMIT 1, 2"),
    (None, "SELECT a FROM t ORDER BY a FETCH FIRST 3 ROWS ONLY"),
    (None, "SELECT a FROM t LIMIT 5 OFFSET 2"),
    ("clickhouse", "WITH x AS (SELECT 1) SELECT * FROM x"),
    (None, "GRANT SELECT ON TABLE t TO u"),
    ("tsql", "DECLARE @a INT = 1"),
    ("postgres", "SELECT a::int4, b::double precision FROM t"),
    (None, "SELECT * FROM a JOIN (b JOIN c ON b.x = c.x) ON a.x = b.x"),
    (None, "SELECT * FROM t PIVOT(SUM(v) FOR k IN ('a', 'b'))"),
    (None, "CREATE TABLE a CLONE b"),
    ("oracle", "SELECT (d2 - d1) DAY TO SECOND FROM t"),
    # function signatures (printed with identifier quoting switched off for the duration of the signature)
    ("bigquery", "CREATE TEMP FUNCTION f(a INT64, b STRING) AS (a)"),
    ("postgres", "CREATE FUNCTION f(a INT, b TEXT DEFAULT 'x') RETURNS INT LANGUAGE SQL AS $$SELECT 1$$"),
    ("snowflake", "CREATE FUNCTION f(a INT, b VARCHAR) RETURNS INT AS 'a + 1'"),
    ("duckdb", "CREATE MACRO m(a, b) AS a + b"),
]

# Type-coercion sensitive projections (string vs temporal, integer vs decimal): what annotate_types answers for them
# depends on the coercion tables, which dialect modules extend at import time.
TYPED = [
    "SELECT 'x' + CAST(d AS DATE) AS a, CAST(s AS VARCHAR) + CAST(d AS TIMESTAMP) AS b FROM t",
    "SELECT [CAST(s AS VARCHAR), CAST(d AS DATE)] AS arr, GREATEST('a', CAST(d AS DATE)) AS g FROM t",
    "SELECT CAST(i AS BIGINT) + CAST(x AS DECIMAL) AS c, CAST(i AS INT) / CAST(f AS DOUBLE) AS q FROM t",
    "SELECT COALESCE(CAST(s AS TEXT), CAST(ts AS TIMESTAMPTZ)) AS c1, CASE WHEN p THEN CAST(s AS VARCHAR) ELSE CAST(tm AS TIME) END AS c2 FROM t",
    "SELECT CAST(a AS TINYINT) + CAST(b AS SMALLINT) AS s, CAST(a AS FLOAT) * CAST(b AS BIGINT) AS m, CAST(a AS DATE) - CAST(b AS DATE) AS dd FROM t",
    "SELECT IF(p, CAST(s AS CHAR), CAST(d AS DATETIME)) AS i, NULLIF(CAST(s AS NVARCHAR), CAST(d AS DATE)) AS n FROM t",
]

# Words that are keywords only in some context, used as plain identifiers: observes parser tables polluted by earlier calls.
SOFT_KEYWORDS = [
    "SELECT prior, level, start, connect FROM t",
    "SELECT key, value, type, name, path, index FROM t",
    "SELECT offset, ordinality, format, first, last, next FROM t",
    "SELECT a AS prior, b AS filter, c AS window_, d AS recursive FROM t WHERE prior > 1",
    "SELECT t.prior, t.current, t.row, t.rows, t.range FROM t",
]

# Dialect-specific vocabulary (date-part abbreviations, unit names, function-ish words) placed in generic positions. A
# word that one dialect's import adds to a table shared with other dialects changes how THEY parse these.
VOCAB_WORDS = ["N", "QQ", "SS", "TZ", "WW", "MCS", "ISOWK", "ISODOW", "ISOWEEK", "DW", "DY", "MM", "HH", "MI", "NS", "MS", "US", "YY", "YYYY", "WK", "DOY", "DOW",
               "EPOCH", "D", "M", "Y", "H", "S", "Q", "W", "DAYOFWEEK", "WEEKDAY", "MICROSEC", "NANOSEC", "MILLENNIUM", "DECADE", "CENTURY", "TIMEZONE_HOUR",
               "PRIOR", "LEVEL", "SAMPLE", "TOP", "QUALIFY", "PIVOT", "FINAL", "GLOBAL", "ILIKE", "DIV", "XOR", "SEMI", "ANTI", "ASOF", "POSITIONAL"]
VOCAB_TEMPLATES = [
    "SELECT a::INTERVAL {w} FROM t",
    "SELECT CAST(a AS INTERVAL) {w} FROM t",
    "SELECT d + INTERVAL '1' {w} FROM t",
    "SELECT DATE_TRUNC('{w}', d), EXTRACT({w} FROM d) FROM t",
    "SELECT DATEADD({w}, 1, d), DATEDIFF({w}, d1, d2) FROM t",
    "SELECT {w} FROM t",
    "SELECT a AS {w}, t.{w} FROM t",
    "SELECT {w}(a, 1) FROM t",
    "SELECT a {w} FROM t",
    "SELECT * FROM t {w}",
]


def vocab_statement(rng):
    w = rng.choice(VOCAB_WORDS)
    if rng.random() < 0.5:
        w = w.lower()
    return rng.choice(VOCAB_TEMPLATES).format(w=w)


SPECULATIVE = [x for x in STATEFUL if x[1] in (
    "SELECT a FROM t LIMIT 1, 2", "SELECT a FROM t ORDER BY a FETCH FIRST 3 ROWS ONLY", "SELECT a FROM t LIMIT 5 OFFSET 2", "WITH x AS (SELECT 1) SELECT * FROM x",
    "GRANT SELECT ON TABLE t TO u", "DECLARE @a INT = 1", "SELECT a::int4, b::double precision FROM t", "SELECT * FROM a JOIN (b JOIN c ON b.x = c.x) ON a.x = b.x",
    "SELECT * FROM t PIVOT(SUM(v) FOR k IN ('a', 'b'))", "CREATE TABLE a CLONE b", "SELECT (d2 - d1) DAY TO SECOND FROM t")]
SIGNATURES = [x for x in STATEFUL if x[1].startswith(("CREATE TEMP FUNCTION", "CREATE FUNCTION", "CREATE MACRO"))]

# the same JSON path TEXT under dialects whose path syntaxes read it differently (dashes, leading digits, quoting)
JSON_PATH_TEXTS = [
    ("hive", "SELECT GET_JSON_OBJECT(payload, '$.a-b') FROM events"),
    ("duckdb", "SELECT x -> '$.a-b' FROM t"),
    ("mysql", "SELECT x -> '$.a-b' FROM t"),
    ("presto", "SELECT JSON_EXTRACT(x, '$.a-b') FROM t"),
    (None, "SELECT JSON_EXTRACT(x, '$.a-b') FROM t"),
    ("bigquery", "SELECT JSON_VALUE(j, '$.1a') FROM t"),
    (None, "SELECT JSON_EXTRACT(x, '$.1a') FROM t"),
    ("databricks", "SELECT GET_JSON_OBJECT(c, '$.`k 1`.b') FROM t"),
    ("spark", "SELECT GET_JSON_OBJECT(c, '$.a-b.c') FROM t"),
    ("snowflake", "SELECT GET_PATH(v, 'a-b') FROM t"),
]


def stateful_families():
    """Statements grouped by the piece of per-instance state they touch; a focus group takes whole families so that the
    same state is exercised at least twice on one reused component."""
    fam = {
        "pipe": [x for x in STATEFUL if "|>" in x[1]] + [("bigquery", "FROM t |> WHERE a > 1 |> AGGREGATE COUNT(*) AS n GROUP BY b")]
        + [x for x in FAILING if "|>" in x[1]],
        "anon_alias": [x for x in STATEFUL if "UNNEST" in x[1] or "VALUES (1, 2)" in x[1] or "CROSS JOIN (SELECT 2)" in x[1] or "GENERATE_SERIES(1, 3)" == x[1][-21:] or "FLATTEN" in x[1]],
        "lambda": [x for x in STATEFUL if "->" in x[1]],
        "jsonpath": [x for x in STATEFUL if "JSON_EXTRACT" in x[1]] + [("bigquery", "SELECT JSON_VALUE(j, '$.a'), JSON_QUERY(j, '$.b.c') FROM t")] + JSON_PATH_TEXTS,
        "speculative": list(SPECULATIVE),
        "signature": list(SIGNATURES),
        "softkw": [(None, q) for q in SOFT_KEYWORDS],
        "unsupported": [x for x in STATEFUL if x[0] in ("postgres", "tsql", "mysql", "oracle", "clickhouse") and "GENERATE_SERIES(1, 3)" != x[1][-21:]],
        "errctx": list(ERRCTX),
    }
    return {k: v for k, v in fam.items() if v}


# identifiers in every letter case, quoted and not: what per-dialect-instance settings (normalization strategy) act on
MIXED_CASE = [
    "SELECT col, Col, COL, \"Quoted\", \"lower\", \"UPPER\" FROM tbl AS T",
    "SELECT foo, Bar, BAZ FROM mixed WHERE Bar > 1",
    "SELECT * FROM mixed",
    "SELECT m.*, x.a FROM mixed AS m JOIN x ON x.a = m.foo",
    "SELECT T.Col AS Alias1, t.col AS alias1 FROM Tbl AS T WHERE T.COL = 1 ORDER BY Alias1",
    "WITH Cte AS (SELECT a AS MixedCol FROM x) SELECT MixedCol, CTE.mixedcol FROM Cte",
    # a star that cannot be expanded (no schema for src) under a consumer that names columns differing only in letter case
    'SELECT t."Id", t."id", t."ID" FROM (SELECT * FROM src LIMIT 5) AS t',
    'WITH c AS (SELECT * FROM src) SELECT a."Val", b."val", a."VAL" FROM c AS a JOIN c AS b ON a."Key" = b."key"',
]

# derived tables / CTEs whose inner aliases conflict with aliases of the query they are merged into - in one, two or three names,
# some of them differing only in a trailing counter (what re-optimising the optimizer's own output looks like): the renames that
# merge_subqueries has to invent must not depend on the order in which a set of conflicts is visited
MERGE_CONFLICTS = [
    "SELECT q.a, x.b AS b1, x_2.b AS b2 FROM (SELECT x.a AS a FROM x AS x JOIN y AS x_2 ON x.a = x_2.b WHERE x_2.b > 1) AS q JOIN x AS x ON q.a = x.a JOIN y AS x_2 ON x.b = x_2.b",
    "SELECT q.a, y.c, y_2.c AS c2, y_3.a AS a3 FROM (SELECT y.b AS a FROM y AS y JOIN y AS y_2 ON y.b = y_2.b JOIN z AS y_3 ON y_3.a = y.b) AS q JOIN y AS y ON q.a = y.b JOIN y AS y_2 ON y.c = y_2.c JOIN z AS y_3 ON y_3.a = q.a",
    "WITH c AS (SELECT t.a AS a, t_2.c AS c FROM x AS t JOIN y AS t_2 ON t.b = t_2.b) SELECT c.a, t.b, t_2.c FROM c JOIN x AS t ON t.a = c.a JOIN y AS t_2 ON t_2.c = c.c",
    "SELECT q.a FROM (SELECT x.a AS a FROM x AS x JOIN y AS y ON x.b = y.b) AS q JOIN x AS x ON q.a = x.a JOIN y AS y ON y.b = x.b",
    "SELECT q.a, u.b FROM (SELECT u.a AS a FROM x AS u JOIN x AS u_2 ON u.a = u_2.a JOIN x AS u_2_2 ON u.a = u_2_2.a) AS q JOIN x AS u ON u.a = q.a JOIN x AS u_2 ON u_2.a = q.a",
]

# (dialect, sql, column, schema name) for lineage: operator chains whose column mappings are composed step by step
LINEAGE_CASES = [
    ("snowflake", "SELECT id, n FROM sales UNPIVOT(score FOR month IN (jan, feb, mar, apr)) PIVOT(SUM(score) FOR region IN ('n' AS n, 's' AS s))", "n", "none"),
    ("snowflake", "SELECT id, s FROM sales UNPIVOT(score FOR month IN (jan, feb, mar, apr, may)) PIVOT(MAX(score) FOR region IN ('n' AS n, 's' AS s, 'e' AS e))", "s", "none"),
    ("snowflake", "SELECT * FROM t UNPIVOT(v FOR k IN (c1, c2, c3, c4)) UNPIVOT(w FOR j IN (v, d1, d2))", "w", "none"),
    ("bigquery", "SELECT * FROM (SELECT a, b, c FROM t) PIVOT(SUM(a) AS s, MAX(b) AS m FOR c IN ('x', 'y', 'z'))", "s_x", "none"),
    ("duckdb", "SELECT k, v FROM (SELECT 1 AS a, 2 AS b, 3 AS c) UNPIVOT(v FOR k IN (a, b, c))", "v", "none"),
    (None, "WITH c1 AS (SELECT a, b FROM x), c2 AS (SELECT a + b AS s, a FROM c1), c3 AS (SELECT s * a AS p FROM c2) SELECT p FROM c3", "p", "xyz"),
    (None, "SELECT a FROM x UNION SELECT c FROM y UNION ALL SELECT a FROM z", "a", "xyz"),
    (None, "SELECT COALESCE(x.a, y.b, y.c, x.b) AS k FROM x JOIN y ON x.b = y.b", "k", "xyz"),
    (None, "SELECT t.a + t.b + t.c2 AS k FROM (SELECT x.a, x.b, y.c AS c2 FROM x JOIN y ON x.b = y.b) AS t", "k", "xyz"),
]

FAILING = [
    (None, "SELECT * FROM"),
    (None, "SELECT 'unterminated"),
    (None, "SELECT (a, b"),
    (None, "SELECT a FROM t WHERE"),
    ("bigquery", "SELECT `unterminated FROM t"),
    (None, "CASE WHEN"),
    (None, "SELECT a,\n/* pending */ 'unterminated"),
    ("postgres", "SELECT a,\n-- pending\n$$unterminated"),
    (None, "/* leading */ 'unterminated"),
    (None, "SELECT a -- trailing comment\n, \"unterminated"),
    (None, "SELECT a FROM t CONNECT BY PRIOR a = ("),
    (None, "SELECT a FROM t START WITH a = 1 CONNECT BY PRIOR"),
    ("snowflake", "SELECT a FROM t MATCH_RECOGNIZE (PARTITION BY"),
    ("bigquery", "FROM x |> AGGREGATE SUM("),
    (None, "SELECT CAST(a AS STRUCT<"),
    (None, "SELECT a FROM t PIVOT (SUM(b) FOR"),
    (None, "WITH RECURSIVE c AS (SELECT 1 UNION ALL SELECT"),
    (None, "SELECT x -> (y, z"),
    (None, "CREATE TABLE t (a INT, CONSTRAINT"),
    (None, "MERGE INTO t USING s ON t.a = s.a WHEN MATCHED THEN"),
    # nodes left with two or more required args missing: which one is reported, and in which order
    # pipe syntax that fails only after earlier operators have already been turned into CTEs
    ("bigquery", "FROM t |> SELECT a, b |> WHERE a > 1 |> FROBNICATE b"),
    ("bigquery", "FROM t |> SELECT a |> EXTEND a + 1 AS b |> AGGREGATE SUM("),
    (None, "SELECT a BETWEEN"),
    (None, "SELECT a FROM t WHERE b NOT BETWEEN"),
    ("mysql", "SELECT x BETWEEN"),
]
# statements of the same shape with different names: an error is raised at the same offsets of a different text, so whatever a
# reused component remembers about "the error at this position" (context excerpt, highlighted token) belongs to another input
for _a, _t in (("a", "t1"), ("b", "t2"), ("c", "t3")):
    FAILING += [(None, "SELECT %s FROM %s WHERE" % (_a, _t)), (None, "SELECT %s FROM %s WHERE %s = (" % (_a, _t, _a)), (None, "SELECT %s + FROM %s" % (_a, _t)),
                (None, "SELECT CAST(%s AS) FROM %s" % (_a, _t))]
ERRCTX = [x for x in FAILING if x[1].endswith((" t1", " t2", " t3", " t1 WHERE", " t2 WHERE", " t3 WHERE", "= ("))]
# dialect strings the settings parser rejects: which complaint is raised must not depend on the process
BAD_SETTINGS = ["duckdb, foo=1, bar=2", "hive, spark2, spark, databricks", "snowflake, normalization_strategy=lowercase, zzz=1, aaa=2, mmm=3", "mysql, normalization_strategy=nope",
                "postgres, version=1, x=2, y=3", "nosuchdialect", "tsql, a, b, c, d"]

_cache = {}


def zoo_statements(variant=0, per_stmt=24):
    """A "function zoo": every Func class of sqlglot.expressions that the base dialect parses from NAME(args) (about 500), packed
    two dozen to a SELECT. `variant` changes the literal arguments only, so that several threads (or several calls on one reused
    generator) run the same generator methods on different data and any state they share shows up as the other one's values."""
    key = ("zoo", variant, per_stmt)
    if key in _cache:
        return _cache[key]
    import inspect
    import logging

    sqlglot = common.use_sqlglot()  # the tree under test, never whatever `import sqlglot` finds first
    from sqlglot import exp

    lg = logging.getLogger("sqlglot")
    old = lg.level
    lg.setLevel(logging.CRITICAL)
    calls = []
    try:
        for n, c in sorted(vars(exp).items()):
            if not (inspect.isclass(c) and issubclass(c, exp.Func) and c is not exp.Func) or n.startswith("_"):
                continue
            try:
                names = c.sql_names()
            except Exception:
                continue
            if not names:
                continue
            req = [k for k, v in getattr(c, "arg_types", {}).items() if v]
            if len(req) > 3:
                continue
            args = ", ".join("c%d" % i if i % 2 == 0 else str(7 + i + 100 * variant) for i in range(max(1, len(req))))
            text = "%s(%s)" % (names[0], args)
            try:
                t = sqlglot.parse_one("SELECT %s FROM t" % text)
                if t.find(c) is not None:
                    for d_ in (None, "bigquery", "duckdb", "tsql", "clickhouse", "snowflake"):
                        t.sql(dialect=d_)  # a call some generator cannot print at all would hide the rest of its statement
                    calls.append(text)
            except Exception:
                pass
    finally:
        lg.setLevel(old)
    out = []
    for i in range(0, len(calls), per_stmt):
        chunk = calls[i:i + per_stmt]
        out.append("SELECT " + ", ".join("%s AS f%d" % (x, j) for j, x in enumerate(chunk)) + " FROM t WHERE c0 > %d" % (variant + 1))
    _cache[key] = out
    return out


def tests_dir():
    for root in (common.sqlglot_root(), "/repo"):
        d = os.path.join(root, "tests")
        if os.path.isdir(os.path.join(d, "dialects")):
            return d
    return None


def extracted(max_len=240):
    """[(dialect|None, sql)] statically extracted from tests/dialects/*.py; deterministic order."""
    key = ("extracted", max_len)
    if key in _cache:
        return _cache[key]
    out = []
    d = tests_dir()
    if d:
        for f in sorted(glob.glob(os.path.join(d, "dialects", "test_*.py"))):
            try:
                tree = ast.parse(open(f).read())
            except Exception:
                continue
            for cls in [n for n in tree.body if isinstance(n, ast.ClassDef)]:
                dialect = None
                for n in cls.body:
                    if isinstance(n, ast.Assign) and any(isinstance(t, ast.Name) and t.id == "dialect" for t in n.targets):
                        if isinstance(n.value, ast.Constant):
                            dialect = n.value.value
                for node in ast.walk(cls):
                    if isinstance(node, ast.Call) and isinstance(node.func, ast.Attribute) and node.func.attr in ("validate_identity", "validate_all") and node.args:
                        a = node.args[0]
                        if isinstance(a, ast.Constant) and isinstance(a.value, str):
                            out.append((dialect, a.value))
                        if node.func.attr == "validate_all":
                            for kw in node.keywords:
                                if kw.arg in ("read", "write") and isinstance(kw.value, ast.Dict):
                                    for k, v in zip(kw.value.keys, kw.value.values):
                                        if isinstance(k, ast.Constant) and isinstance(v, ast.Constant) and isinstance(v.value, str) and isinstance(k.value, str):
                                            out.append((k.value or None, v.value))
    seen = set()
    uniq = []
    for dl, s in out:
        if (dl, s) not in seen and 0 < len(s) <= max_len:
            seen.add((dl, s))
            uniq.append((dl, s))
    _cache[key] = uniq
    return uniq


def fixtures(max_len=400):
    """Statements of tests/fixtures/identity.sql and optimizer/*.sql (inputs only), base dialect."""
    key = ("fixtures", max_len)
    if key in _cache:
        return _cache[key]
    out = []
    d = tests_dir()
    if d:
        p = os.path.join(d, "fixtures", "identity.sql")
        if os.path.exists(p):
            for line in open(p):
                line = line.strip()
                if line and not line.startswith("--") and len(line) <= max_len:
                    out.append((None, line))
    _cache[key] = out
    return out


def optimizer_fixture_queries(max_len=600):
    """Input queries of tests/fixtures/optimizer/*.sql pairs: (dialect, sql). Schema is the fixtures' x/y/z schema."""
    key = ("optfix", max_len)
    if key in _cache:
        return _cache[key]
    out = []
    d = tests_dir()
    if d:
        for name in ("optimizer.sql", "simplify.sql", "merge_subqueries.sql", "pushdown_predicates.sql", "qualify_columns.sql",
                     "unnest_subqueries.sql", "eliminate_subqueries.sql", "eliminate_ctes.sql", "optimize_joins.sql", "normalize.sql",
                     "pushdown_projections.sql", "canonicalize.sql", "eliminate_joins.sql"):
            p = os.path.join(d, "fixtures", "optimizer", name)
            if not os.path.exists(p):
                continue
            stmts = []
            cur = []
            meta = {}
            for line in open(p):
                s = line.rstrip("\n")
                if s.strip().startswith("#"):
                    if ":" in s:
                        k, v = s.strip()[1:].split(":", 1)
                        meta[k.strip()] = v.strip()
                    continue
                if s.strip().startswith("--"):
                    continue
                if s.strip() == "":
                    continue
                cur.append(s)
                if s.rstrip().endswith(";"):
                    stmts.append((dict(meta), "\n".join(cur).rstrip(";")))
                    cur = []
                    meta = {} if len(stmts) % 2 == 0 else meta
            for i in range(0, len(stmts) - 1, 2):
                m, sql = stmts[i]
                if len(sql) <= max_len:
                    out.append((m.get("dialect"), sql))
    _cache[key] = out
    return out


FIXTURE_SCHEMA = {
    "mixed": {"foo": "INT", "Bar": "INT", "BAZ": "TEXT"},
    "x": {"a": "INT", "b": "INT"},
    "y": {"b": "INT", "c": "INT"},
    "z": {"b": "INT", "c": "INT"},
    "w": {"d": "TEXT", "e": "TEXT"},
}


def extracted_strata():
    """Extracted statements grouped by their leading keyword, so that rare statement kinds (ALTER, MERGE, COPY, GRANT, ...)
    are not drowned by the thousands of SELECTs when a statement is drawn: pick a stratum first, then a statement."""
    key = ("strata",)
    if key in _cache:
        return _cache[key]
    groups = {}
    for d, q in extracted():
        w = q.lstrip("( \n\t").split(None, 1)[0].upper() if q.strip() else ""
        groups.setdefault(w if w.isalpha() else "OTHER", []).append((d, q))
    big = {k: v for k, v in groups.items() if len(v) >= 8}
    rest = [x for k, v in sorted(groups.items()) if len(v) < 8 for x in v]
    if rest:
        big["MISC"] = rest
    out = [big[k] for k in sorted(big)]
    _cache[key] = out
    return out


# --------------------------------------------------------------------------- seeded query grammar over SCHEMA


class _QG:
    """Expression grammar over a set of visible table aliases (alias -> {column: type}). Everything is drawn from the
    caller's PRNG, so a (seed) decides the query; the text ends up in the record."""

    def __init__(self, rng, visible, outer=None):
        self.r = rng
        self.visible = visible
        self.outer = outer or {}

    def _cols(self, want=None, outer=False):
        src = self.outer if outer else self.visible
        out = []
        for al in sorted(src):
            for c, ty in src[al].items():
                if want is None or ty == want:
                    out.append("%s.%s" % (al, c))
        return out

    def col(self, want=None, outer=False):
        cs = self._cols(want, outer) or self._cols(None, outer) or self._cols()
        return self.r.choice(cs)

    def num(self, d=0):
        r = self.r
        k = r.randrange(10 if d < 3 else 3)
        if k == 0:
            return str(r.choice([0, 1, 2, 3, 10, -1, 1.5]))
        if k in (1, 2):
            return self.col("INT")
        if k == 3:
            return "(%s %s %s)" % (self.num(d + 1), r.choice("+-*/%"), self.num(d + 1))
        if k == 4:
            return "%s %s %s" % (self.num(d + 1), r.choice("+-*"), self.num(d + 1))
        if k == 5:
            return "COALESCE(%s, %s)" % (self.num(d + 1), r.choice(["0", "NULL", self.col("INT")]))
        if k == 6:
            return "CASE WHEN %s THEN %s ELSE %s END" % (self.cond(d + 2), self.num(d + 1), self.num(d + 1))
        if k == 7:
            return "CAST(%s AS %s)" % (self.num(d + 1), r.choice(["INT", "BIGINT", "DOUBLE", "DECIMAL(18, 2)"]))
        if k == 8:
            return "-%s" % self.col("INT")
        return "ABS(%s)" % self.num(d + 1)

    def text(self, d=0):
        r = self.r
        k = r.randrange(5)
        if k == 0:
            return r.choice(["'a'", "'k'", "''", "'2020-01-01'"])
        if k == 1:
            return self.col("TEXT")
        if k == 2:
            return "CONCAT(%s, %s)" % (self.text(d + 1), r.choice(["'x'", self.col("TEXT")]))
        if k == 3:
            return "%s || %s" % (self.col("TEXT"), r.choice(["'y'", self.col("TEXT")]))
        return "CAST(%s AS TEXT)" % self.num(d + 2)

    def corr(self, inner_alias, inner_cols, d=0):
        """A correlated predicate: inner column against an expression over one or more OUTER columns."""
        r = self.r
        ic = "%s.%s" % (inner_alias, r.choice(sorted(inner_cols)))
        k = r.randrange(5)
        if not self._cols(None, outer=True):
            return "%s = 1" % ic
        o1, o2 = self.col("INT", outer=True), self.col("INT", outer=True)
        if k == 0:
            return "%s = %s" % (ic, o1)
        if k == 1:
            return "%s = %s %s %s" % (ic, o1, r.choice("+-*"), o2)
        if k == 2:
            return "%s = %s AND %s.%s %s %s" % (ic, o1, inner_alias, r.choice(sorted(inner_cols)), r.choice(["<", ">", "=", "<>"]), o2)
        if k == 3:
            return "%s %s %s" % (ic, r.choice(["<", ">", "<>"]), o1)
        return "%s = %s AND %s = %s" % (ic, o1, o1, o2)

    def subq(self, kind, d=0):
        r = self.r
        t = r.choice(["x", "y", "z"])
        al = "s%d" % r.randrange(3)
        cols = SCHEMA[t]
        inner = _QG(r, {al: cols}, outer={**self.outer, **self.visible})
        w = inner.corr(al, [c for c, ty in cols.items() if ty == "INT"] or list(cols), d)
        if r.random() < 0.3:
            w += " AND %s" % _QG(r, {al: cols}).cond(d + 3)
        ic = "%s.%s" % (al, r.choice([c for c, ty in cols.items() if ty == "INT"] or sorted(cols)))
        if kind == "exists":
            return "%sEXISTS (SELECT 1 FROM %s AS %s WHERE %s)" % (r.choice(["", "", "NOT "]), t, al, w)
        if kind == "in":
            return "%s %sIN (SELECT %s FROM %s AS %s WHERE %s)" % (self.col("INT"), r.choice(["", "", "NOT "]), ic, t, al, w)
        if kind == "any":
            return "%s %s %s (SELECT %s FROM %s AS %s WHERE %s)" % (self.col("INT"), r.choice(["=", "<", ">"]), r.choice(["ANY", "ALL"]), ic, t, al, w)
        return "(SELECT %s(%s) FROM %s AS %s WHERE %s)" % (r.choice(["MAX", "MIN", "SUM", "COUNT"]), ic, t, al, w)

    def atom(self, alias=None):
        r = self.r
        g = _QG(r, {alias: self.visible[alias]}) if alias else self
        k = r.randrange(4)
        if k == 0:
            return "%s %s %s" % (g.col("INT"), r.choice(["=", "<>", "<", ">"]), r.choice([0, 1, 2, 10]))
        if k == 1:
            return "%s %s %s" % (g.col("INT"), r.choice(["=", "<", ">"]), self.col("INT"))
        if k == 2:
            return "%s IS %sNULL" % (g.col(), r.choice(["", "NOT "]))
        return "%s = %s" % (g.col("TEXT"), r.choice(["'a'", "'k'"]))

    def dnf(self):
        """OR of AND-blocks of simple comparisons. Usually one pivot table occurs in every block: only predicates on such
        tables are candidates for being pushed down from a disjunction."""
        r = self.r
        pivot = r.choice(sorted(self.visible)) if r.random() < 0.7 else None
        blocks = []
        for _ in range(r.randrange(2, 4)):
            atoms = [self.atom() for _ in range(r.randrange(0 if pivot else 1, 3))]
            if pivot:
                atoms.insert(r.randrange(len(atoms) + 1), self.atom(pivot))
            blocks.append("(%s)" % " AND ".join(atoms))
        return " OR ".join(blocks)

    def cond(self, d=0):
        r = self.r
        k = r.randrange(20 if d < 4 else 6)
        cmp_ = r.choice(["=", "<>", "<", "<=", ">", ">="])
        if k in (0, 1):
            return "%s %s %s" % (self.num(d + 1), cmp_, self.num(d + 1))
        if k == 2:
            return r.choice(["TRUE", "FALSE", "NULL", "1 = 1", "1 = 2"])
        if k == 3:
            return "%s %s %s" % (self.col("INT"), cmp_, r.choice([0, 1, 2, 10]))
        if k == 4:
            return "%s %s %s" % (self.text(d + 1), r.choice(["=", "<>", "LIKE"]), self.text(d + 1))
        if k == 5:
            return "%s IS %sNULL" % (self.col(), r.choice(["", "NOT "]))
        if k == 6:
            return "%s IN (%s)" % (self.col("INT"), ", ".join(self.num(d + 2) for _ in range(r.randrange(1, 4))))
        if k in (7, 8, 9):
            return "%s AND %s" % (self.cond(d + 1), self.cond(d + 1))
        if k in (10, 11):
            return "%s OR %s" % (self.cond(d + 1), self.cond(d + 1))
        if k == 12:
            # disjunctive normal form: blocks over different tables, the shape predicate pushdown looks for
            if r.random() < 0.7:
                return self.dnf()
            blocks = ["(%s AND %s)" % (self.cond(d + 2), self.cond(d + 2)) for _ in range(r.randrange(2, 4))]
            return " OR ".join(blocks)
        if k == 13:
            return "NOT (%s)" % self.cond(d + 1)
        if k == 14:
            return "(%s)" % self.cond(d + 1)
        if k == 15:
            return "%s %sBETWEEN %s AND %s" % (self.num(d + 1), r.choice(["", "NOT "]), self.num(d + 2), self.num(d + 2))
        if k == 16:
            c = self.cond(d + 1)
            return r.choice(["%s AND %s", "%s OR %s", "(%s) AND NOT (%s)"]) % (c, c)
        if k == 17:
            return self.subq("exists", d)
        if k == 18:
            return self.subq(r.choice(["in", "in", "any"]), d)
        return "%s %s %s" % (self.col("INT"), cmp_, self.subq("scalar", d))


ALIAS_POOL = ["x", "x_2", "x_3", "y", "y_2", "q", "q_2", "z"]


def gen_query(rng, depth=0, ctes=None, collide=None):
    """A random, qualifiable SELECT over SCHEMA: joins of every kind, derived tables and CTEs that themselves join,
    correlated subqueries whose predicates mention several outer columns, DNF filters, grouping, windows, set operations."""
    r = rng
    base = ["x", "y", "z", "w", "mixed"]
    ctes = dict(ctes or {})
    if collide is None:
        # alias vocabulary of the whole query: unique names per nesting level (t00, t10, ...), or a small pool shared by all
        # levels - names that differ only in a trailing counter, as the optimizer's own renames produce - so that inner and
        # outer scopes conflict when a derived table or CTE is merged into its parent
        collide = r.random() < 0.35
    with_sql = ""
    if depth == 0 and r.random() < 0.3:
        parts = []
        for i in range(r.randrange(1, 3)):
            name = "c%d" % i
            body, cols = gen_query(r, depth + 2, ctes, collide), None
            parts.append("%s AS (%s)" % (name, body[0]))
            ctes[name] = body[1]
        with_sql = "WITH " + ", ".join(parts) + " "
    visible = {}
    froms = []
    for i in range(r.choice([1, 1, 2, 2, 3]) if depth == 0 else r.choice([1, 1, 2])):
        al = "t%d%d" % (depth, i)
        if collide:
            al = r.choice([a_ for a_ in ALIAS_POOL if a_ not in visible])
        u = r.random()
        if ctes and u < 0.3:
            name = r.choice(sorted(ctes))
            visible[al] = ctes[name]
            froms.append("%s AS %s" % (name, al))
        elif depth < 2 and u < (0.5 if depth == 0 else 0.2):
            sub, cols = gen_query(r, depth + 1, ctes, collide)
            visible[al] = cols
            froms.append("(%s) AS %s" % (sub, al))
        else:
            t = r.choice(base[:3] if r.random() < 0.8 else base)
            visible[al] = dict(SCHEMA[t])
            froms.append("%s AS %s" % (t, al))
    g = _QG(r, visible)
    cd = 1 + 2 * depth + r.randrange(3)  # smaller predicates in nested queries
    sel, out_cols = [], {}
    if r.random() < 0.12:
        al = r.choice(sorted(visible))
        sel.append(r.choice(["*", "%s.*" % al]))
        for a in (sorted(visible) if sel[-1] == "*" else [al]):
            for c, ty in visible[a].items():
                out_cols.setdefault(c, ty)
    grouped = r.random() < 0.25
    gcols = [g.col() for _ in range(r.randrange(1, 3))] if grouped else []
    ordinal_keys = []  # GROUP BY <position>: keys that are constants keep their ordinal through qualification
    by_ordinal = grouped and not sel and r.random() < 0.35
    # DISTINCT ON a group key that is also projected and ordered by: three clauses referring to one projection
    distinct_on = grouped and not by_ordinal and not sel and r.random() < 0.2
    for i in range(r.randrange(1, 4) if not by_ordinal else r.randrange(2, 5)):
        name = "k%d" % i
        if by_ordinal:
            u = r.randrange(4)
            if u == 0:
                e, ty = r.choice(["1", "'a'", "2.5", "NULL"]), "INT"
                ordinal_keys.append(i + 1)
            elif u == 1:
                e, ty = g.col(), "INT"
                ordinal_keys.append(i + 1)
            else:
                e, ty = "%s(%s)" % (r.choice(["SUM", "MAX", "COUNT", "MIN"]), g.col("INT")), "INT"
        elif grouped:
            if r.random() < 0.5 or (distinct_on and i == 0):
                e, ty = (gcols[0] if distinct_on and i == 0 else r.choice(gcols)), "INT"
            else:
                e, ty = "%s(%s)" % (r.choice(["SUM", "MAX", "COUNT", "MIN"]), g.col("INT")), "INT"
        else:
            u = r.randrange(10)
            if u < 5:
                e, ty = g.col("INT"), "INT"
            elif u == 5:
                e, ty = g.num(2), "INT"
            elif u == 6:
                e, ty = g.text(2), "TEXT"
            elif u == 7:
                e, ty = g.subq("scalar", 3), "INT"
            elif u == 8:
                fn = r.choice(["SUM", "MAX", "ROW_NUMBER"])
                e, ty = "%s(%s) OVER (PARTITION BY %s ORDER BY %s)" % (fn, "" if fn == "ROW_NUMBER" else g.col("INT"), g.col(), g.col()), "INT"
            else:
                e, ty = g.cond(4), "BOOLEAN"
        sel.append("%s AS %s" % (e, name))
        out_cols[name] = ty
    head = "DISTINCT ON (%s) " % gcols[0] if distinct_on else ("DISTINCT " if r.random() < 0.1 else "")
    sql = "SELECT " + head + ", ".join(sel) + " FROM " + froms[0]
    seen = {}
    first_al = froms[0].rsplit(" AS ", 1)[1]
    seen[first_al] = visible[first_al]
    for f in froms[1:]:
        al = f.rsplit(" AS ", 1)[1]
        jt = r.choice(["JOIN", "JOIN", "LEFT JOIN", "LEFT JOIN", "INNER JOIN", "RIGHT JOIN", "FULL JOIN", "CROSS JOIN", ","])
        if jt == ",":
            sql += ", " + f
        elif jt == "CROSS JOIN":
            sql += " CROSS JOIN " + f
        else:
            # an equi-join between this alias and an earlier one, sometimes with a residual predicate
            mine = _QG(r, {al: visible[al]})
            prev = _QG(r, dict(seen))
            on = "%s = %s" % (mine.col("INT"), prev.col("INT"))
            if r.random() < 0.3:
                on += " AND " + _QG(r, {**seen, al: visible[al]}).cond(4)
            if len(seen) >= 2 and r.random() < 0.4:
                # multi-key join: several conjuncts relating this source to one or two particular earlier sources (which may have
                # been cross-joined so far: their conjuncts are what optimize_joins moves)
                pas = r.sample(sorted(seen), r.choice([1, 1, 2]))
                for _ in range(r.randrange(1, 4)):
                    pa = r.choice(pas)
                    on += " AND %s %s %s" % (mine.col("INT"), r.choice(["=", "=", "<", ">"]), _QG(r, {pa: seen[pa]}).col("INT"))
            sql += " %s %s ON %s" % (jt, f, on)
        seen[al] = visible[al]
    u = r.random()
    if u < (0.25 if len(froms) > 1 else 0.1):
        sql += " WHERE " + g.dnf()
    elif u < 0.8:
        sql += " WHERE " + g.cond(cd)
    if by_ordinal:
        gcols = [str(k_) for k_ in ordinal_keys]
        grouped = bool(gcols)
    if grouped:
        sql += " GROUP BY " + ", ".join(gcols)
        if r.random() < 0.4:
            sql += " HAVING %s(%s) > %d" % (r.choice(["SUM", "COUNT", "MAX"]), g.col("INT"), r.randrange(3))
    if distinct_on:
        sql += " ORDER BY " + gcols[0] + r.choice(["", " DESC"])
    elif r.random() < 0.25:
        sql += " ORDER BY " + r.choice(["1", sorted(out_cols)[0]] if not sel[0].endswith("*") else [g.col()]) + r.choice(["", " DESC"])
    if r.random() < 0.15:
        sql += " LIMIT %d" % r.randrange(1, 20)
    if depth <= 1 and r.random() < 0.1 and not sel[0].endswith("*"):
        # set operations need equal arity
        sql = "%s %s SELECT %s FROM x AS u" % (sql, r.choice(["UNION", "UNION ALL", "INTERSECT", "EXCEPT"]), ", ".join(["u.a"] * len(sel)))
    return with_sql + sql, out_cols


def gen_schema_query(rng):
    return gen_query(rng)[0]
