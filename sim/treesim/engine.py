"""treesim — C08 (trees stay consistent under any edit sequence) and C09 (non-mutating APIs / independent copies).

System under simulation: a forest of up to MAX_TREES live syntax trees plus a pool of detached nodes. The state that
matters is per-node: the memoised `_hash` and the parent/arg_key/index back-links. A run is a generated history that
interleaves cache-populating operations with mutations, producers, optimizer rules and "non-mutating" API calls, with
injected faults (aborted callbacks, failing rules, unparsable builder arguments, stack exhaustion at a PRNG-chosen depth).
After EVERY step the invariants I1-I5 are checked on the whole forest; non-mutating calls are bracketed by a strict
identity fingerprint of their arguments. A record is plain JSON; execute(record) is a pure function of it.
"""
import copy as _copy
import pickle
import random
import sys

from sim.core import common
from sim.corpus import corpus
from sim.treesim import inv

PROPS = ["C08", "C09"]
MAX_TREES = 6
MAX_NODES = 500

RULE = (
    "one run = one generated history (8-60 ops, swarm-configured weights) over a forest of <=6 live trees + detached pool; ops address "
    "trees/nodes/arg keys by selectors modulo current size. signature = hash of the sequence of (op kind, target node class, "
    "position class scalar/first/middle/last, cache state none/self/ancestor, outcome). non-trivial (C08) = some mutation executed "
    "while an ancestor of its target (or the target) had a cached hash; (C09) = a non-mutating call ran on a tree that had a cached "
    "hash or that had already been the argument of another non-mutating call in a different dialect."
)
COMPONENTS = {
    "real": ["sqlglot.expressions (all node classes, set/append/replace/pop/transform/copy/builders)", "sqlglot.parser", "sqlglot.generator + all dialect generators",
             "sqlglot.optimizer rules", "sqlglot.diff", "sqlglot.lineage", "sqlglot.serde / pickle"],
    "stub": [],
}
ASSUMPTIONS = [
    "values attached to a tree are always detached (fresh parse, copy, or node obtained from pop/replace): attaching a node that is still stored elsewhere is caller error and is not generated",
    "equality oracle is one-directional: if base-dialect SQL (case-folded, comments off) changed then tree != pre-edit snapshot; the converse is not asserted",
    "stack exhaustion is injected only into calls documented to copy their argument",
]

SQL_DIALECTS = [None, "duckdb", "spark", "tsql", "oracle", "bigquery", "snowflake", "postgres", "mysql", "clickhouse", "hive", "presto", "trino",
                "redshift", "sqlite", "databricks", "teradata", "starrocks", "doris", "athena", "drill", "dremio", "exasol", "fabric", "materialize",
                "risingwave", "singlestore", "spark2", "tableau", "druid", "dune", "prql", "solr"]
RULE_NAMES = ["qualify", "pushdown_projections", "normalize", "unnest_subqueries", "pushdown_predicates", "optimize_joins", "eliminate_subqueries",
              "merge_subqueries", "eliminate_joins", "eliminate_ctes", "quote_identifiers", "annotate_types", "canonicalize", "simplify"]
SELECT_BUILDERS = {
    "select": "nn", "where": "zz > 1", "from_": "ft", "join": "jt ON jt.a = 1", "group_by": "gg", "order_by": "oo DESC", "limit": 7, "offset": 2,
    "having": "COUNT(*) > 1", "distinct": None, "qualify": "rn = 1", "sort_by": "sb", "cluster_by": "cb", "lateral": "lt AS l", "window": "w AS (PARTITION BY p)",
}
WRAP_BUILDERS = ["and_", "or_", "not_", "as_", "subquery", "isin", "between", "like", "eq", "neq", "is_", "desc", "asc", "with_", "union", "limit_q"]
NM_FUNCS = ["sql_all", "sql_all", "update_fn", "insert_fn", "column_fn", "placeholders_expr", "sql", "sql", "sql", "optimize", "qualify_copy", "annotate_copy", "diff", "diff", "lineage", "expand", "replace_tables", "replace_placeholders",
            "maybe_parse_copy", "binop", "dump", "alias_", "subquery_fn", "not_fn", "and_fn", "cast_fn", "find_tables", "to_s", "union_fn", "copy_eq", "plan",
            "refl", "refl", "refl_fn", "refl_fn", "sql_nodes", "sql_nodes"]
# arguments for the reflective builder op: every public method of the target's class that has a `copy` parameter is a candidate
REFL_ARGS = {"select": ["nn"], "where": ["zz > 1"], "having": ["COUNT(*) > 1"], "qualify": ["rn = 1"], "on": ["zz = 1"], "from_": ["ft"], "join": ["jt"],
             "group_by": ["gg"], "order_by": ["oo DESC"], "sort_by": ["sb"], "cluster_by": ["cb"], "limit": [7], "offset": [2], "with_": ["al", "SELECT 1 AS a"],
             "union": ["SELECT 9 AS z"], "intersect": ["SELECT 9 AS z"], "except_": ["SELECT 9 AS z"], "using": ["uu"], "ctas": ["newt"], "lock": [], "hint": ["HINT1"],
             "returning": ["rr"], "delete": ["dt"], "table": ["ut"], "set_": ["x = 1"], "when": ["zz > 1", "1"], "else_": ["0"], "isin": [1, 2], "between": [1, 5],
             "as_": ["al"], "subquery": ["al"], "to_column": [], "distinct": ["dd"], "window": ["w AS (PARTITION BY p)"], "lateral": ["lt AS l"], "and_": ["k = 1"],
             "or_": ["k = 1"], "not_": []}
_REFL_CACHE = {}


def _refl_methods(cls):
    """Sorted names of the public methods of `cls` that take a `copy` parameter (sql/transform have their own ops)."""
    import inspect

    if cls not in _REFL_CACHE:
        out = []
        for name in sorted(dir(cls)):
            if name.startswith("_") or name in ("sql", "transform"):
                continue
            m = getattr(cls, name, None)
            if inspect.isfunction(m):
                try:
                    if "copy" in inspect.signature(m).parameters:
                        out.append(name)
                except (TypeError, ValueError):
                    pass
        _REFL_CACHE[cls] = out
    return _REFL_CACHE[cls]


def _refl_fn_calls(exp, n, n2):
    """Module-level builder functions documented to copy their Expression arguments, called with LIVE nodes (n, n2)."""
    T, C, I, Q = exp.Table, exp.Column, exp.Identifier, exp.Query
    return [
        ("func", lambda: exp.func("COALESCE", n, n2)),
        ("func1", lambda: exp.func("MY_UDF", n)),
        ("case", lambda: exp.case(n).when(n2, "1").else_(n2)),
        ("case0", lambda: exp.case().when(n, n2)),
        ("array", lambda: exp.array(n, n2)),
        ("tuple_", lambda: exp.tuple_(n, n2)),
        ("to_table", lambda: exp.to_table(n) if isinstance(n, T) else None),
        ("to_column", lambda: exp.to_column(n) if isinstance(n, C) else None),
        ("to_identifier", lambda: exp.to_identifier(n) if isinstance(n, I) else None),
        ("convert", lambda: exp.convert(n, copy=True)),
        ("convert_list", lambda: exp.convert([n, n2], copy=True)),
        ("normalize_table_name", lambda: exp.normalize_table_name(n) if isinstance(n, T) else None),
        ("alias_table", lambda: exp.alias_(n, "al", table=isinstance(n, (T, exp.Subquery)))),
        ("paren", lambda: exp.paren(n)),
        ("condition", lambda: exp.condition(n)),
        ("or_", lambda: exp.or_(n, n2)),
        ("xor", lambda: exp.xor(n, n2)),
        ("merge", lambda: exp.merge("WHEN MATCHED THEN DELETE", into=n if isinstance(n, T) else "tgt", using=n2 if isinstance(n2, T) else "src",
                                    on=n if isinstance(n, exp.Condition) else "a = b")),
        ("cast_dt", lambda: exp.cast(n, n2) if isinstance(n2, exp.DataType) else exp.cast(n, "int")),
        ("column", lambda: exp.column(n, table=n2) if isinstance(n, I) and isinstance(n2, I) else None),
        ("subquery", lambda: exp.subquery(n, "al") if isinstance(n, Q) else None),
        ("expand", lambda: exp.expand(n, {"x": n2}) if isinstance(n2, Q) else None),
        ("intersect", lambda: exp.intersect(n, n2) if isinstance(n, Q) and isinstance(n2, Q) else None),
        ("except_", lambda: exp.except_(n, n2) if isinstance(n, Q) and isinstance(n2, Q) else None),
        ("insert", lambda: exp.insert(n, n2 if isinstance(n2, T) else "tgt") if isinstance(n, Q) else None),
        ("update", lambda: exp.update(n if isinstance(n, T) else "tt", {"a": n2})),
    ]
BAD_SQL = "SELECT (((("


class SimAbort(Exception):
    """Injected failure of a user callback."""


def plan(prop, tier):
    if tier == "thorough":
        return {"run_timeout": 25, "mem_cap_gb": 4, "runs": 160000, "chunk": 1000, "wall_cap": 1700, "selftest": 200, "shrink_wall": 900}
    return {"run_timeout": 25, "mem_cap_gb": 4, "runs": 9600, "chunk": 200, "wall_cap": 300, "selftest": 48, "shrink_wall": 400}


def prepare(prop, tier, seed):
    """Systematic part of a C08 batch ("plus the trees returned by parse"): EVERY statement of the test corpus and the function zoo
    in every dialect is parsed - twice, see the parse op - as records of a few hundred parse ops, so that a producer defect in one
    dialect's parser does not depend on the random histories drawing one of the handful of statements that show it."""
    if prop != "C08":
        return None
    stmts = list(corpus.extracted())
    zoo = corpus.zoo_statements(seed % 3)
    for d in SQL_DIALECTS:
        stmts += [(d, q) for q in zoo]
    per = 250
    cfg = {"mode": "C08", "faults": [], "fault_rate": 0.0, "weights": {}, "use_extracted": True, "rule_ok": False, "hot_dialects": [], "p_grammar": 0.0, "shape": "parse-sweep"}
    recs = []
    for i in range(0, len(stmts), per):
        recs.append({"engine": "treesim", "config": cfg, "ops": [{"k": "parse", "sql": q, "dialect": d} for d, q in stmts[i:i + per]]})
    return {"parse_sweep_statements": len(stmts), "extra_records": recs}


def worker_init(prop, tier):
    sqlglot = common.use_sqlglot()
    from sqlglot.dialects.dialect import Dialect
    import sqlglot.optimizer.optimizer  # noqa: F401  (loads every rule module)
    import sqlglot.lineage  # noqa: F401
    import sqlglot.diff  # noqa: F401
    import sqlglot.serde  # noqa: F401

    # Warm every dialect and its generator dispatch so that injected stack exhaustion never lands in first-use code.
    for d in SQL_DIALECTS:
        try:
            dl = Dialect.get_or_raise(d)
            dl.generator()
            dl.parser()
            dl.tokenizer()
        except Exception:
            pass
    try:
        sqlglot.transpile("SELECT a FROM x WHERE b -> '$.a'", read="mysql", write="duckdb")
    except Exception:
        pass
    sys.setrecursionlimit(max(sys.getrecursionlimit(), 3000))
    return None


def worker_close(state):
    pass


# --------------------------------------------------------------------------- generation


def _val(rng):
    r = rng.random()
    if r < 0.55:
        return {"src": "fresh", "sql": rng.choice(corpus.SNIPPETS)}
    if r < 0.8:
        return {"src": "copy", "t": rng.randrange(64), "n": rng.randrange(4096)}
    return {"src": "det", "i": rng.randrange(64)}


def _tn(rng):
    return {"t": rng.randrange(64), "n": rng.randrange(4096) if rng.random() < 0.85 else 0}


def _gen_parse(rng, cfg):
    src = rng.random()
    ext = corpus.extracted() if cfg["use_extracted"] else []
    if rng.random() < 0.04:
        d, s = STRUCT_QUERIES[rng.randrange(len(STRUCT_QUERIES))]
        return {"k": "parse", "sql": s, "dialect": d}
    if rng.random() < 0.03:
        # a function-zoo statement: two dozen Func classes at once, most of them rare in the test corpus, for the generators to print
        zoo = corpus.zoo_statements(0)
        return {"k": "parse", "sql": zoo[rng.randrange(len(zoo))], "dialect": None}
    if rng.random() < cfg.get("p_grammar", 0.0):
        # seeded query grammar over the harness schema: joins of every kind, derived tables/CTEs that join, correlated subqueries, DNF filters
        # the grammar only uses portable SQL: sometimes the query is read (and later qualified / optimized) in a dialect with
        # its own identifier rules
        return {"k": "parse", "sql": corpus.gen_schema_query(rng), "dialect": rng.choice([None, None, None, "bigquery", "snowflake", "duckdb", "postgres", "tsql", "mysql", "spark", "oracle", "clickhouse"])}
    if ext and src < (0.45 if cfg["mode"] == "C08" else 0.7):
        if rng.random() < 0.5:
            strata = corpus.extracted_strata()
            st_ = strata[rng.randrange(len(strata))]
            d, s = st_[rng.randrange(len(st_))]
        else:
            d, s = ext[rng.randrange(len(ext))]
    elif src < 0.8 or not cfg["use_extracted"]:
        if rng.random() < 0.6:
            d, s = None, rng.choice(corpus.SCHEMA_QUERIES)
        else:
            d, s = rng.choice(corpus.GENERAL)
    else:
        fx = corpus.fixtures()
        d, s = fx[rng.randrange(len(fx))] if fx else (None, rng.choice(corpus.SCHEMA_QUERIES))
    return {"k": "parse", "sql": s, "dialect": d}


def generate(prop, run_seed, tier):
    rng = random.Random(run_seed)
    mode = prop
    faulted = rng.random() < 0.6
    all_faults = ["abort_callback", "bad_builder_arg", "stack_exhaustion", "failing_rule"]
    faults = sorted(rng.sample(all_faults, rng.randint(1, len(all_faults)))) if faulted else []
    groups = ["cache", "set", "set_idx", "append", "replace", "pop", "transform", "replace_children", "replace_tree", "builder", "wrap",
              "comments", "rule", "producer", "nm", "set_kwargs", "diff_sub"]
    # swarm: each run enables a random subset of op groups with random weights
    weights = {}
    for g in groups:
        if rng.random() < 0.7:
            weights[g] = rng.choice([1, 2, 4])
    weights["cache"] = weights.get("cache", 0) + rng.choice([2, 4, 6])
    if mode == "C09":
        weights["nm"] = weights.get("nm", 0) + rng.choice([8, 12, 16])
        weights["producer"] = weights.get("producer", 0) + 2
    else:
        weights["nm"] = min(weights.get("nm", 0), 2)
    cfg = {
        "mode": mode,
        "faults": faults,
        "fault_rate": rng.choice([0.03, 0.08, 0.15]) if faulted else 0.0,
        "weights": weights,
        "use_extracted": rng.random() < (0.5 if mode == "C08" else 0.8),  # C09 is quantified over target dialects x statement kinds: the test corpus is where the rare kinds are
        "rule_ok": "failing_rule" in faults or rng.random() < 0.5,
        "hot_dialects": rng.sample(SQL_DIALECTS, 3),
    }
    shape = rng.random()
    cfg["p_grammar"] = rng.choice([0.0, 0.15, 0.4])
    if shape < (0.3 if mode == "C08" else 0.08):
        # optimizer-shaped run: one qualifiable query, qualify, then rules in the optimizer's own order (a random subset, or one
        # rule alone), with cache-populating reads in between; the generic op mix follows on the result
        cfg["p_grammar"] = 1.0
        cfg["shape"] = "pipeline"
        u = rng.random()
        fixq = corpus.optimizer_fixture_queries(max_len=400) if 0.7 <= u < 0.85 else []
        if u < 0.7:
            ops = [_gen_parse(rng, cfg)]
        else:
            ops = [{"k": "parse", "sql": rng.choice(fixq)[1] if fixq else rng.choice(corpus.SCHEMA_QUERIES), "dialect": None}]
        cfg["p_grammar"] = 0.4
        use_schema = rng.random() < 0.9

        def reads():
            return [{"k": rng.choice(["hash", "hash_all", "hash_all"]), "t": 0, "n": rng.randrange(4096)} for _ in range(rng.choice([0, 0, 1, 2]))]

        ops += reads() + [{"k": "rule", "t": 0, "rule": "qualify", "schema": True, "dialect": "origin"}]
        post = RULE_NAMES[1:]
        if rng.random() < 0.5:
            # each of several rules alone, on its own copy of the merely qualified tree (what a user composing their own rule
            # list gets); the rewriting rules are favoured
            fan = rng.sample(sorted(NEEDS_QUALIFIED), rng.randint(1, 5)) if rng.random() < 0.8 else rng.sample(post, rng.randint(1, 5))
            for i, r_ in enumerate(fan):
                ops += [{"k": "copy", "t": 0, "n": 0, "how": rng.choice(["copy", "copy", "deepcopy", "pickle"])}]
                ops += [{"k": rng.choice(["hash", "hash_all"]), "t": i + 1, "n": rng.randrange(4096)}] if rng.random() < 0.4 else []
                ops += [{"k": "rule", "t": i + 1, "rule": r_, "schema": use_schema, "dialect": "origin"}]
        else:
            pr = rng.choice([0.3, 0.6, 1.0])
            for r_ in [r_ for r_ in post if rng.random() < pr]:
                ops += reads() + [{"k": "rule", "t": 0, "rule": r_, "schema": use_schema, "dialect": "origin"}]
        ops += reads()
    else:
        ops = [_gen_parse(rng, cfg) for _ in range(rng.randint(1, 3))]
    keys = sorted(weights)
    wl = [weights[k] for k in keys]
    n = rng.randint(8, 60 if tier == "quick" else 90)
    if cfg.get("shape") == "pipeline":
        n = rng.randint(0, 12)
    for _ in range(n):
        g = rng.choices(keys, wl)[0]
        fault_now = bool(faults) and rng.random() < cfg["fault_rate"]
        op = _gen_op(rng, g, cfg, fault_now)
        ops.append(op)
    return {"engine": "treesim", "config": cfg, "ops": ops}


def _gen_op(rng, g, cfg, fault_now):
    faults = cfg["faults"]
    if g == "cache":
        k = rng.choice(["hash", "hash", "eq", "inset", "hash_all"])
        op = {"k": k, **_tn(rng)}
        if k == "eq":
            op["t2"], op["n2"] = rng.randrange(64), rng.randrange(4096)
        return op
    if g == "set" and rng.random() < 0.12:
        return {"k": "rewrap", **_tn(rng), "w": rng.choice(["paren", "not", "neg", "alias", "cast", "paren_b", "not_b"]), "mode": rng.choice(["install", "install", "restore"])}
    if g == "set" and rng.random() < 0.2:
        return {"k": "set_case", **_tn(rng), "key": rng.randrange(64), "whole": rng.random() < 0.5}
    if g == "set" and rng.random() < 0.25:
        return {"k": "set_leaf", **_tn(rng), "key": rng.randrange(64), "mode": rng.choice(["drop", "drop", "zero", "bump"])}
    if g == "set":
        return {"k": "set", **_tn(rng), "key": rng.randrange(64), "v": rng.choice([None, _val(rng), _val(rng)]), "list": [_val(rng) for _ in range(rng.randint(0, 3))]}
    if g == "set_idx":
        return {"k": "set_idx", **_tn(rng), "lk": rng.randrange(16), "i": rng.randrange(64), "mode": rng.choice(["ow", "ins", "del", "splice", "oob"]),
                "v": [_val(rng), _val(rng)], "neg": rng.random() < 0.25}
    if g == "append":
        return {"k": "append", **_tn(rng), "lk": rng.randrange(16), "v": _val(rng)}
    if g == "replace":
        w = rng.choice(["val", "val", "self", "none", "list", "list_self"])
        return {"k": "replace", **_tn(rng), "with": w, "v": [_val(rng), _val(rng)], "keep_old": rng.random() < 0.5}
    if g == "pop":
        return {"k": "pop", **_tn(rng)}
    if g == "transform":
        return {"k": "transform", "t": rng.randrange(64), "n": 0 if rng.random() < 0.7 else rng.randrange(4096), "copy": rng.random() < 0.4, "mod": rng.randrange(1, 6),
                "abort": rng.randrange(1, 30) if (fault_now and "abort_callback" in faults) else None, "sib": rng.choice([0, 0, 1, 2, 3])}
    if g == "replace_children":
        return {"k": "replace_children", **_tn(rng), "mod": rng.randrange(1, 4), "abort": rng.randrange(1, 6) if (fault_now and "abort_callback" in faults) else None}
    if g == "replace_tree":
        return {"k": "replace_tree", **_tn(rng), "mod": rng.randrange(1, 4), "abort": rng.randrange(1, 20) if (fault_now and "abort_callback" in faults) else None}
    if g == "builder":
        b = rng.choice(sorted(SELECT_BUILDERS))
        return {"k": "builder", **_tn(rng), "b": b, "copy": rng.random() < (0.7 if cfg["mode"] == "C09" else 0.35),
                "bad": bool(fault_now and "bad_builder_arg" in faults), "append": rng.random() < 0.8, "arg_expr": rng.random() < 0.3,
                "on_root": rng.random() < 0.3, "donor": [rng.randrange(64), rng.randrange(4096), rng.random() < 0.3] if rng.random() < 0.5 else None}
    if g == "wrap":
        return {"k": "wrap", "t": rng.randrange(64), "n": rng.randrange(4096), "b": rng.choice(WRAP_BUILDERS), "copy": rng.random() < (0.8 if cfg["mode"] == "C09" else 0.4),
                "bad": bool(fault_now and "bad_builder_arg" in faults), "donor": [rng.randrange(64), rng.randrange(4096)] if rng.random() < 0.4 else None}
    if g == "comments":
        r_ = rng.random()
        if r_ < 0.25:
            return {"k": "meta_put", **_tn(rng), "kind": rng.choice(["list", "dict", "expr", "nested"])}
        if r_ < 0.45:
            return {"k": "meta_mut", **_tn(rng)}
        return {"k": "comments", **_tn(rng), "prepend": rng.random() < 0.5, "meta": rng.random() < 0.3}
    if g == "set_kwargs":
        return {"k": "set_kwargs", **_tn(rng), "keys": [rng.randrange(64), rng.randrange(64)], "v": [_val(rng), _val(rng)]}
    if g == "rule":
        return {"k": "rule", "t": rng.randrange(64), "rule": rng.choice(RULE_NAMES), "schema": rng.random() < 0.8, "dialect": "origin" if rng.random() < 0.8 else rng.choice([None] + cfg["hot_dialects"])}
    if g == "producer":
        if rng.random() < 0.5:
            return _gen_parse(rng, cfg)
        return {"k": "copy", **_tn(rng), "how": rng.choice(["copy", "deepcopy", "serde", "pickle"])}
    if g == "diff_sub":
        return {"k": "nm", "f": "diff", "t": rng.randrange(64), "n": rng.randrange(4096), "t2": rng.randrange(64), "n2": rng.randrange(4096), "dialect": None,
                "opts": {}, "exhaust": None, "matchings": False, "delta_only": rng.random() < 0.5}
    if g == "nm":
        f = rng.choice(NM_FUNCS)
        d = rng.choice(cfg["hot_dialects"]) if rng.random() < 0.6 else rng.choice(SQL_DIALECTS)
        opts = {}
        if f == "sql":
            for o in ("pretty", "identify", "normalize", "normalize_functions", "comments", "unsupported_level", "pad", "max_text_width", "leading_comma"):
                if rng.random() < 0.2:
                    opts[o] = {"pretty": True, "identify": rng.choice([True, "safe"]), "normalize": True, "normalize_functions": rng.choice(["upper", "lower", False]),
                               "comments": False, "unsupported_level": rng.choice(["RAISE", "IMMEDIATE", "IGNORE"]), "pad": 4, "max_text_width": 20, "leading_comma": True}[o]
        return {"k": "nm", "f": f, "t": rng.randrange(64), "n": 0 if rng.random() < 0.6 else rng.randrange(4096), "t2": rng.randrange(64), "n2": 0 if rng.random() < 0.5 else rng.randrange(4096),
                "dialect": d, "opts": opts, "exhaust": rng.randrange(5, 80) if (fault_now and "stack_exhaustion" in faults) else None,
                "matchings": rng.random() < 0.3, "delta_only": rng.random() < 0.3, "col_node": rng.random() < 0.5, "keep": rng.random() < 0.5,
                "db_node": rng.choice([0, 0, 1, 2]), "m": rng.randrange(4096)}
    raise ValueError(g)


# --------------------------------------------------------------------------- execution helpers


class World:
    def __init__(self):
        self.trees = []
        self.pool = []
        self.origin = {}  # id(root) -> dialect the tree was parsed in (None = base); unknown roots default to base

    def add_tree(self, t):
        from sqlglot.expressions.core import Expr

        if not isinstance(t, Expr):
            return
        self.trees.append(t)
        while len(self.trees) > MAX_TREES:
            self.trees.pop(0)

    def tree(self, sel):
        return self.trees[sel % len(self.trees)]

    def replace_slot(self, old, new):
        # identity, never ==: Expression.__eq__ is structural
        for i, t in enumerate(self.trees):
            if t is old:
                self.trees[i] = new
                return
        raise AssertionError("tree not in forest")

    def has(self, t):
        return any(x is t for x in self.trees)

    def node(self, tsel, nsel):
        t = self.tree(tsel)
        nodes = inv.walk(t)
        return t, nodes[nsel % len(nodes)], nodes

    def value(self, spec):
        import sqlglot

        if spec is None:
            return None
        if spec["src"] == "fresh":
            return sqlglot.parse_one(spec["sql"])
        if spec["src"] == "copy":
            _, n, _ = self.node(spec["t"], spec["n"])
            return n.copy()
        if self.pool:
            return self.pool.pop(spec["i"] % len(self.pool))
        return sqlglot.parse_one("1")


class _LowStack:
    """Stack exhaustion fault: lower the recursion limit to current depth + margin for the duration of a call."""

    def __init__(self, margin):
        self.margin = margin

    def __enter__(self):
        self.old = sys.getrecursionlimit()
        if self.margin is not None:
            depth = 0
            f = sys._getframe()
            while f is not None:
                depth += 1
                f = f.f_back
            sys.setrecursionlimit(depth + self.margin)

    def __exit__(self, *a):
        sys.setrecursionlimit(self.old)
        return False


def _sql(t):
    try:
        return t.sql(comments=False).lower()
    except Exception:
        return None


_EXACT_TOKENS = None


def _norm_sql(t):
    """(case-folded SQL, texts of its string-like literal and quoted-identifier tokens) of a clone in which args that equality
    ignores (None / False / empty list) are dropped. Equality folds the case of keywords, function names, types and unquoted
    words by design; the text of string-like literals and quoted identifiers is a leaf value in its own right."""
    global _EXACT_TOKENS
    try:
        sql = inv.clone(t, drop_falsy=True).sql(comments=False)
    except Exception:
        return None
    exact = ()
    try:
        from sqlglot.tokens import Tokenizer, TokenType

        if _EXACT_TOKENS is None:
            _EXACT_TOKENS = {getattr(TokenType, n) for n in ("STRING", "RAW_STRING", "NATIONAL_STRING", "BYTE_STRING", "UNICODE_STRING", "HEREDOC_STRING", "IDENTIFIER")
                             if hasattr(TokenType, n)}
        exact = tuple(tk.text for tk in Tokenizer().tokenize(sql) if tk.token_type in _EXACT_TOKENS)
    except Exception:
        pass
    return sql.lower(), exact


def _position_class(n):
    if n.parent is None:
        return "root"
    if n.index is None:
        return "scalar"
    sib = n.parent.args.get(n.arg_key)
    ln = len(sib) if type(sib) is list else 1
    if n.index == 0:
        return "first" if ln > 1 else "only"
    return "last" if n.index == ln - 1 else "middle"


def _cache_class(n):
    if n._hash is not None:
        return "self"
    p = n.parent
    while p is not None:
        if p._hash is not None:
            return "ancestor"
        p = p.parent
    return "none"


def _schema():
    return _copy.deepcopy(corpus.SCHEMA)


STRUCT_QUERIES = [("risingwave", "SELECT (s.st).* FROM s"), ("risingwave", "SELECT (st).*, id FROM s AS s"), ("bigquery", "SELECT s.st.* FROM s"),
                  ("bigquery", "SELECT st.a_1, s.st.b_1 FROM s"), (None, "SELECT s.st.a_1 AS k FROM s WHERE s.id = 1"), ("duckdb", "SELECT UNNEST(arr) AS u, id FROM s"),
                  ("bigquery", "SELECT x FROM s, UNNEST(s.arr) AS x"), ("postgres", "SELECT (s.st).a_1 FROM s"), ("risingwave", "SELECT (s.st).*, (s.st).b_1 FROM s JOIN x ON x.a = s.id")]


def _schema_objs(st):
    """The harness schema with DataType OBJECTS as column types (a documented form), plus a table with STRUCT / ARRAY columns. The
    objects are the caller's: every one is fingerprinted, and the non-mutating call that received them is judged on them too."""
    from sqlglot import exp

    sch = {t: {c: exp.DataType.build(ty) for c, ty in cols.items()} for t, cols in corpus.SCHEMA.items()}
    sch["s"] = {"id": exp.DataType.build("INT"), "st": exp.DataType.build("STRUCT<a_1 INT, b_1 TEXT>"), "arr": exp.DataType.build("ARRAY<INT>")}
    extra = st.setdefault("_extra_args", [])
    for t in sorted(sch):
        for c in sorted(sch[t]):
            dt = sch[t][c]
            extra.append((dt, inv.fingerprint(dt), dt.sql(), "schema type %s.%s" % (t, c)))
    return sch


NEEDS_QUALIFIED = {"pushdown_projections", "unnest_subqueries", "pushdown_predicates", "optimize_joins", "eliminate_subqueries", "merge_subqueries",
                   "eliminate_joins", "eliminate_ctes"}


def _is_qualified(t, dialect):
    """True iff qualification is a no-op on the tree (it is already qualified against the harness schema)."""
    from sqlglot.optimizer.qualify import qualify

    try:
        q = qualify(t.copy(), schema=_schema(), dialect=dialect)
        return q.sql(dialect=dialect) == t.sql(dialect=dialect)
    except RecursionError:
        raise
    except Exception:
        return False


def _parser_reachable(t, dialect):
    """True iff the tree is exactly what the parser produces from the tree's own SQL in `dialect`."""
    import sqlglot

    try:
        sql = t.sql(dialect=dialect)
        back = sqlglot.parse_one(sql, read=dialect)
        return type(back) is type(t) and inv.eq_preserving(back, t) and back.sql(dialect=dialect) == sql
    except RecursionError:
        raise
    except Exception:
        return False


def _rule_fn(name):
    import sqlglot.optimizer.optimizer as O
    from sqlglot.optimizer.qualify_columns import quote_identifiers

    if name == "quote_identifiers":
        return quote_identifiers
    return getattr(O, name)


def _call_rule(name, tree, use_schema, dialect):
    import inspect

    fn = _rule_fn(name)
    params = inspect.getfullargspec(fn).args
    kwargs = {}
    if "schema" in params and use_schema:
        kwargs["schema"] = _schema()
    if "dialect" in params and dialect:
        kwargs["dialect"] = dialect
    return fn(tree, **kwargs)


# --------------------------------------------------------------------------- op interpreter


def _apply(world, op, st):
    """Executes one op. Returns dict(outcome, targets=set of tree ids allowed to change, nm=[arg trees that must not change],
    new=[(new tree, source node or None, kind)], sqlcheck=tree or None)."""
    import sqlglot
    from sqlglot import exp
    from sqlglot.expressions.core import Expr

    k = op["k"]
    res = {"outcome": "ok", "targets": set(), "nm": [], "new": [], "mut_tree": None, "cls": "-", "pos": "-", "cache": "-"}

    def target(tsel, nsel):
        t, n, nodes = world.node(tsel, nsel)
        res["cls"], res["pos"], res["cache"] = type(n).__name__, _position_class(n), _cache_class(n)
        return t, n, nodes

    if k == "parse":
        try:
            t = sqlglot.parse_one(op["sql"], read=op["dialect"])
        except Exception as e:
            res["outcome"] = type(e).__name__
            return res
        if t is not None and len(inv.walk(t)) <= MAX_NODES:
            world.origin[id(t)] = op["dialect"]
            res["new"].append((t, None, "parse"))
            res["cls"] = type(t).__name__
            # the same statement parsed a second time: the two trees must not have a node in common (a node object kept at module
            # or class level and put into every tree that needs it is "stored in two places" as soon as two such trees exist)
            try:
                t2 = sqlglot.parse_one(op["sql"], read=op["dialect"])
                mine = {id(x): x for x in inv.walk(t)}
                sh = [x for x in inv.walk(t2) if id(x) in mine]
                if sh:
                    x = sh[0]
                    res["twin_shared"] = "%s node %r (stored under %s.%s) is the same object in two parses of the statement" % (
                        type(x).__name__, x.sql()[:40], type(x.parent).__name__ if x.parent is not None else None, x.arg_key)
                    res["twin_cls"] = "%s.%s" % (type(x.parent).__name__ if x.parent is not None else None, x.arg_key)
            except Exception:
                pass
        return res

    if not world.trees:
        res["outcome"] = "skip-empty"
        return res

    if k in ("hash", "eq", "inset", "hash_all"):
        t, n, nodes = target(op["t"], op["n"])
        res["nm"] = [t]
        if k == "hash":
            hash(n)
        elif k == "hash_all":
            for x in nodes:
                hash(x)
        elif k == "inset":
            s = set(nodes[:: max(1, len(nodes) // 8)])
            res["outcome"] = "ok:%s" % (n in s)
        else:
            t2, n2, _ = world.node(op["t2"], op["n2"])
            res["nm"].append(t2)
            res["outcome"] = "ok:%s" % (n == n2)
        return res

    if k == "set_case":
        # change only the letter case of one plain-string leaf value
        t, n, nodes = target(op["t"], op["n"])
        res["targets"].add(id(t)); res["mut_tree"] = t
        ni = next(i for i, x in enumerate(nodes) if x is n)
        cand = None
        for x in nodes[ni:] + nodes[:ni]:
            ks = sorted(kk for kk, vv in x.args.items() if type(vv) is str and vv.swapcase() != vv)
            if ks:
                cand = (x, ks[op["key"] % len(ks)])
                break
        if cand is None:
            res["outcome"] = "skip"
            res["targets"] = set(); res["mut_tree"] = None; res["nm"] = [t]
            return res
        x, key = cand
        v = x.args[key]
        i = next(j for j, ch in enumerate(v) if ch.swapcase() != ch)
        x.set(key, v.swapcase() if op["whole"] else v[:i] + v[i].swapcase() + v[i + 1:])
        res["cls"] = type(x).__name__
        # Equality folds case by design for every plain-string arg except on value-carrying nodes. Judged are only nodes that ARE a
        # quoted string-like literal, a JSON path part (verbatim text inside a string literal) or verbatim command text; a unit or
        # keyword Var that some dialect happens to print inside quotes (DATE_ADD('DAY', ...)) is case-insensitive SQL.
        res["case_judged"] = isinstance(x, (exp.Literal, exp.Identifier, exp.RawString, exp.ByteString, exp.UnicodeString, exp.National, exp.Heredoc,
                                            exp.JSONPathPart, exp.Command))
        return res

    if k == "set_leaf":
        # change one plain (non-Expression) leaf value: number bumped or zeroed, string extended or emptied, a zero / empty / True
        # leaf dropped. Whatever the edit, if the SQL changes the tree must stop comparing equal to its pre-edit snapshot.
        t, n, nodes = target(op["t"], op["n"])
        res["targets"].add(id(t)); res["mut_tree"] = t
        ni = next(i for i, x in enumerate(nodes) if x is n)
        mode = op["mode"]

        def ok(vv, required=False):
            if mode == "drop":
                # dropping a REQUIRED arg makes an invalid node, and nothing is promised about comparing those
                return not required and (vv is True or (type(vv) in (int, str) and not vv))
            if mode == "zero":
                return (type(vv) is int and vv != 0) or (type(vv) is str and vv != "")
            return type(vv) in (int, str)

        cand = None
        for x in nodes[ni:] + nodes[:ni]:
            ks = sorted(kk for kk, vv in x.args.items() if ok(vv, bool(x.arg_types.get(kk))))
            if ks:
                cand = (x, ks[op["key"] % len(ks)])
                break
        if cand is None:
            res["outcome"] = "skip"
            res["targets"] = set(); res["mut_tree"] = None; res["nm"] = [t]
            return res
        x, key = cand
        v = x.args[key]
        if mode == "drop":
            new = None
        elif mode == "zero":
            new = 0 if type(v) is int else ""
        else:
            new = v + 1 if type(v) is int else v + "x"
        x.set(key, new)
        res["cls"] = type(x).__name__
        res["leaf_edit"] = "%s.%s: %r -> %r" % (type(x).__name__, key, v, new)
        if mode == "zero" and not x.arg_types.get(key):
            # 0 / "" in an OPTIONAL arg versus the arg being absent: different leaf values, so a twin that only lacks it is unequal
            now = inv.walk(t)
            idx = next(i for i, y in enumerate(now) if y is x)
            twin = inv.clone(t)
            inv.walk(twin)[idx].set(key, None)
            if inv.eq_preserving(twin, t):
                res["leaf_absent_equal"] = "%s.%s = %r compares equal to the same tree without that arg" % (type(x).__name__, key, new)
        return res

    if k == "set":
        t, n, _ = target(op["t"], op["n"])
        res["targets"].add(id(t)); res["mut_tree"] = t
        keys = sorted(n.arg_types)
        if not keys:
            res["outcome"] = "skip"
            return res
        key = keys[op["key"] % len(keys)]
        cur = n.args.get(key)
        if type(cur) is list:
            n.set(key, [world.value(v) for v in op["list"]])
        elif cur is None or isinstance(cur, Expr):
            n.set(key, world.value(op["v"]))
        elif isinstance(cur, bool):
            n.set(key, not cur)
        elif isinstance(cur, str):
            n.set(key, "zz" if cur != "zz" else "yy")
        elif isinstance(cur, int):
            n.set(key, cur + 1)
        else:
            res["outcome"] = "skip"
        return res

    if k == "rewrap":
        # the in-place wrapping idiom of sqlglot's own rules: holder.set(key, Wrapper(this=child)) - the wrapper adopts the child
        # first, set() then links the wrapper in ("install"); or the caller changes its mind and puts the very same child back
        # with holder.set(key, child), which has to re-adopt it ("restore"). Judged after the whole step only.
        t, n, _ = target(op["t"], op["n"])
        res["targets"].add(id(t)); res["mut_tree"] = t
        p_, key, idx = n.parent, n.arg_key, n.index
        if p_ is None or isinstance(n, (exp.Query, exp.Table, exp.From, exp.Join, exp.Where, exp.Group, exp.Order, exp.Identifier, exp.DataType)) or not isinstance(n, exp.Condition):
            res["outcome"] = "skip"
            return res
        w = op["w"]
        if w == "paren":
            wrapped = exp.Paren(this=n)
        elif w == "not":
            wrapped = exp.Not(this=n)
        elif w == "neg":
            wrapped = exp.Neg(this=n)
        elif w == "alias":
            wrapped = exp.Alias(this=n, alias=exp.to_identifier("rw"))
        elif w == "cast":
            wrapped = exp.Cast(this=n, to=exp.DataType.build("int"))
        elif w == "paren_b":
            wrapped = exp.paren(n, copy=False)
        else:
            wrapped = exp.not_(n, copy=False)
        back = wrapped if op["mode"] == "install" else n
        if idx is None:
            p_.set(key, back)
        else:
            p_.set(key, back, index=idx)
        # in "restore" mode the discarded wrapper still points at the child; it is dropped, not pooled
        res["outcome"] = "ok:" + op["mode"]
        return res

    if k == "set_idx":
        t, n, _ = target(op["t"], op["n"])
        res["targets"].add(id(t)); res["mut_tree"] = t
        lks = sorted(kk for kk, v in n.args.items() if type(v) is list and v)
        if not lks:
            res["outcome"] = "skip"
            return res
        key = lks[op["lk"] % len(lks)]
        L = n.args[key]
        i = op["i"] % len(L)
        if op.get("neg"):
            i -= len(L)  # the same position addressed from the end (negative indexes are accepted by set())
        m = op["mode"]
        if m == "ow":
            n.set(key, world.value(op["v"][0]), index=i)
        elif m == "ins":
            n.set(key, world.value(op["v"][0]), index=i, overwrite=False)
        elif m == "del":
            n.set(key, None, index=i)
        elif m == "splice":
            n.set(key, [world.value(op["v"][0]), world.value(op["v"][1])], index=i)
        else:
            n.set(key, world.value(op["v"][0]), index=len(L) + 3)
        return res

    if k == "append":
        t, n, _ = target(op["t"], op["n"])
        res["targets"].add(id(t)); res["mut_tree"] = t
        lks = sorted(kk for kk in n.arg_types if type(n.args.get(kk)) is list or (kk == "expressions" and n.args.get(kk) is None))
        if not lks:
            res["outcome"] = "skip"
            return res
        n.append(lks[op["lk"] % len(lks)], world.value(op["v"]))
        return res

    if k == "replace":
        t, n, _ = target(op["t"], op["n"])
        res["targets"].add(id(t)); res["mut_tree"] = t
        w = op["with"]
        if n is t and w != "self":
            res["outcome"] = "skip-root"
            return res
        if w == "val":
            n.replace(world.value(op["v"][0]))
        elif w == "self":
            n.replace(n)
        elif w == "none":
            n.replace(None)
        elif w == "list_self":
            if n.index is None:
                res["outcome"] = "skip-notlist"
                return res
            n.replace([world.value(op["v"][0]), n])  # "insert a sibling before me"
        else:
            # on a scalar child this is redirected to the nearest ancestor that is a list element (or is a no-op if there is none)
            n.replace([world.value(op["v"][0]), world.value(op["v"][1])])
        if w not in ("self", "list_self") and op["keep_old"] and n.parent is None:
            world.pool.append(n)
        return res

    if k == "pop":
        t, n, _ = target(op["t"], op["n"])
        res["targets"].add(id(t)); res["mut_tree"] = t
        if n is t:
            res["outcome"] = "skip-root"
            return res
        world.pool.append(n.pop())
        if len(world.pool) > 8:
            world.pool.pop(0)
        return res

    if k == "transform":
        t, n, _ = target(op["t"], op["n"])
        cnt = [0]
        mod = op["mod"]

        def fun(node):
            cnt[0] += 1
            if op["abort"] is not None and cnt[0] == op["abort"]:
                st["faults"]["abort_callback"] += 1
                raise SimAbort()
            c = cnt[0] % mod
            if isinstance(node, exp.Literal) and c == 0:
                return exp.Literal.number(cnt[0])
            if isinstance(node, exp.Column) and c == 1 % mod:
                return exp.func("F", node.copy())
            if isinstance(node, exp.Paren) and c == 2 % mod:
                return node.this
            if isinstance(node, exp.Ordered) and c == 3 % mod and node.parent is not None:
                return None
            if op.get("sib") and node.index is not None and isinstance(node, (exp.Column, exp.Alias, exp.Literal)) and cnt[0] % 3 == 0:
                # a list in place of a list element: insert a sibling before / after the visited node, or split it in two
                extra = exp.column("sib%d" % cnt[0])
                return [[node, extra], [extra, node], [extra, exp.column("sib%db" % cnt[0])]][op["sib"] - 1]
            return node

        if op["copy"]:
            res["nm"] = [t]
            try:
                r = n.transform(fun, copy=True)
            except SimAbort:
                res["outcome"] = "SimAbort"
                return res
            res["new"].append((r, None, "transform_copy"))
        else:
            res["targets"].add(id(t)); res["mut_tree"] = t
            try:
                r = n.transform(fun, copy=False)
            except SimAbort:
                res["outcome"] = "SimAbort"
                return res
            if n is t and r is not t and isinstance(r, Expr):
                world.replace_slot(t, r)
                res["targets"].add(id(r)); res["mut_tree"] = r
        return res

    if k == "replace_children":
        from sqlglot.expressions.builders import replace_children

        t, n, _ = target(op["t"], op["n"])
        res["targets"].add(id(t)); res["mut_tree"] = t
        cnt = [0]

        def fun(child):
            cnt[0] += 1
            if op["abort"] is not None and cnt[0] == op["abort"]:
                st["faults"]["abort_callback"] += 1
                raise SimAbort()
            if cnt[0] % (op["mod"] + 1) == 0:
                return sqlglot.parse_one(corpus.SNIPPETS[cnt[0] % len(corpus.SNIPPETS)])
            return child

        try:
            replace_children(n, fun)
        except SimAbort:
            res["outcome"] = "SimAbort"
        return res

    if k == "replace_tree":
        from sqlglot.expressions.builders import replace_tree

        t, n, _ = target(op["t"], op["n"])
        res["targets"].add(id(t)); res["mut_tree"] = t
        cnt = [0]
        made = set()

        def fun(node):
            cnt[0] += 1
            if op["abort"] is not None and cnt[0] == op["abort"]:
                st["faults"]["abort_callback"] += 1
                raise SimAbort()
            if id(node) in made or node is n:
                return node
            if isinstance(node, exp.Column) and cnt[0] % op["mod"] == 0:
                new = exp.Literal.number(cnt[0])
                made.add(id(new))
                return new
            if isinstance(node, exp.Paren) and node.parent is not None:
                return node.this
            return node

        try:
            replace_tree(n, fun)
        except SimAbort:
            res["outcome"] = "SimAbort"
        return res

    if k == "builder":
        t, n, nodes = target(op["t"], op["n"])
        ni = next(i for i, x in enumerate(nodes) if x is n)
        sel = next((x for x in nodes[ni:] + nodes if isinstance(x, exp.Select)), None)
        if op.get("on_root") and isinstance(t, exp.Query) and hasattr(t, op["b"]):
            sel = t  # Select or SetOperation root: set operations forward select() to both branches
        if sel is None:
            res["outcome"] = "skip-noselect"
            return res
        res["cls"], res["pos"], res["cache"] = "Select", _position_class(sel), _cache_class(sel)
        b = op["b"]
        arg = SELECT_BUILDERS[b]
        if op["bad"]:
            arg = BAD_SQL
            st["faults"]["bad_builder_arg"] += 1
        if op.get("arg_expr") and isinstance(arg, str) and not op["bad"]:
            try:
                arg = exp.maybe_parse(arg, into=getattr(exp, "Join") if b == "join" else None) if b not in ("lateral", "window") else arg
            except Exception:
                pass
        cp = op["copy"]
        if cp:
            res["nm"] = [t]
        else:
            res["targets"].add(id(t)); res["mut_tree"] = t
        args = [arg]
        if cp and op.get("donor") and b in ("where", "having", "qualify") and not op["bad"]:
            # the conjunction builders copy Expression arguments when copy=True: a condition that lives in another (or the same)
            # tree may be handed over, also twice, and its tree must come back untouched
            t2, n2, _ = world.node(op["donor"][0], op["donor"][1])
            if isinstance(n2, exp.Condition) and not isinstance(n2, exp.Query):
                args = [n2, n2] if op["donor"][2] else [n2]
                res["nm"].append(t2)
        kw = {"copy": cp}
        if b in ("select", "where", "group_by", "order_by", "having", "qualify", "sort_by", "cluster_by", "lateral", "window", "join") and not op["append"]:
            kw["append"] = False
        try:
            if b == "distinct":
                r = sel.distinct(copy=cp)
            elif b in ("limit", "offset"):
                r = getattr(sel, b)(arg, copy=cp)
            else:
                r = getattr(sel, b)(*args, **kw)
        except Exception as e:
            res["outcome"] = type(e).__name__
            return res
        if cp and isinstance(r, Expr):
            res["new"].append((r, None, "builder_copy"))
        return res

    if k == "wrap":
        t, n, _ = target(op["t"], op["n"])
        cp = op["copy"]
        if not cp:
            # in-place wrapping moves the receiver under a new node: legal only for a root (otherwise the caller double-attaches it)
            n = t
            res["cls"], res["pos"], res["cache"] = type(n).__name__, "root", _cache_class(n)
            res["targets"].add(id(t)); res["mut_tree"] = t
        else:
            res["nm"] = [t]
        b = op["b"]
        arg = BAD_SQL if op["bad"] else "wz = 1"
        if op["bad"]:
            st["faults"]["bad_builder_arg"] += 1
        try:
            if b in ("and_", "or_"):
                if cp and op.get("donor") and not op["bad"]:
                    t2, n2, _ = world.node(op["donor"][0], op["donor"][1])
                    if isinstance(n2, exp.Condition) and not isinstance(n2, exp.Query):
                        arg = n2
                        res["nm"].append(t2)
                r = getattr(n, b)(arg, copy=cp)
            elif b == "not_":
                r = n.not_(copy=cp)
            elif b == "as_":
                r = n.as_("al", copy=cp)
            elif b == "subquery":
                r = n.subquery("sq", copy=cp) if isinstance(n, exp.Query) else None
            elif b == "isin":
                r = n.isin(1, 2, copy=cp)
            elif b == "between":
                r = n.between(1, 2, copy=cp)
            elif b == "like":
                r = n.like("'x%'") if cp else None
            elif b == "eq":
                r = n.eq(1) if cp else None
            elif b == "neq":
                r = n.neq(1) if cp else None
            elif b == "is_":
                r = n.is_(exp.null()) if cp else None
            elif b == "desc":
                r = n.desc() if cp else None
            elif b == "asc":
                r = n.asc() if cp else None
            elif b == "with_":
                r = n.with_("cte1", as_="SELECT 1 AS q", copy=cp) if isinstance(n, exp.Query) else None
            elif b == "union":
                r = n.union("SELECT 9 AS u", copy=cp) if isinstance(n, exp.Query) else None
            else:
                r = n.limit(4, copy=cp) if isinstance(n, exp.Query) else None
        except Exception as e:
            res["outcome"] = type(e).__name__
            return res
        if r is None:
            res["outcome"] = "skip"
            return res
        if cp:
            res["new"].append((r, None, "wrap_copy"))
        elif r is not t and isinstance(r, Expr):
            world.replace_slot(t, r)
            res["targets"].add(id(r)); res["mut_tree"] = r
        return res

    if k == "comments":
        t, n, _ = target(op["t"], op["n"])
        res["targets"].add(id(t)); res["mut_tree"] = t
        n.add_comments(["c%d" % (op["n"] % 7)] + ([" sqlglot.meta k=v"] if op["meta"] else []), prepend=op["prepend"])
        return res

    if k == "meta_put":
        # meta is the user's per-node dictionary; annotate_types / normalize_identifiers store lists and DataType nodes in it
        t, n, _ = target(op["t"], op["n"])
        res["targets"].add(id(t)); res["mut_tree"] = t
        kind = op["kind"]
        n.meta["verif_" + kind] = {"list": ["m", 1], "dict": {"k": 1}, "expr": exp.DataType.build("int"), "nested": {"l": ["x"], "e": [exp.DataType.build("text")]}}[kind]
        return res

    if k == "meta_mut":
        # in-place edit of a mutable value stored in some node's meta: only the tree that holds that node may change
        t, n0, nodes = target(op["t"], op["n"])
        res["targets"].add(id(t)); res["mut_tree"] = t
        start = next((i for i, x in enumerate(nodes) if x is n0), 0)
        for x in nodes[start:] + nodes[:start]:
            for mk in sorted(x._meta or {}, key=repr):
                mv = x._meta[mk]
                if isinstance(mv, list):
                    mv.append("mut")
                elif isinstance(mv, dict):
                    inner = mv.get("l")
                    if isinstance(inner, list):
                        inner.append("mut")
                    else:
                        mv["mut"] = mv.get("mut", 0) + 1
                elif isinstance(mv, exp.DataType):
                    mv.set("expressions", [exp.DataType.build("int")])
                else:
                    continue
                res["outcome"] = "ok:" + type(mv).__name__
                return res
        res["outcome"] = "skip"
        return res

    if k == "set_kwargs":
        t, n, _ = target(op["t"], op["n"])
        res["targets"].add(id(t)); res["mut_tree"] = t
        keys = sorted(kk for kk in n.arg_types if n.args.get(kk) is None or isinstance(n.args.get(kk), Expr))
        if not keys:
            res["outcome"] = "skip"
            return res
        kw = {}
        for ks, v in zip(op["keys"], op["v"]):
            kw[keys[ks % len(keys)]] = None
        for kk, v in zip(list(kw), op["v"]):
            kw[kk] = world.value(v)
        n.set_kwargs(kw)
        return res

    if k == "rule":
        t = world.tree(op["t"])
        res["cls"], res["pos"], res["cache"] = type(t).__name__, "root", _cache_class(t)
        res["targets"].add(id(t)); res["mut_tree"] = t
        d = world.origin.get(id(t)) if op["dialect"] == "origin" else op["dialect"]
        if not _parser_reachable(t, d):
            # rules are only promised to work on trees the parser could have produced (in the dialect they are told)
            res["outcome"] = "skip-unreachable"
            res["targets"] = set(); res["mut_tree"] = None; res["nm"] = [t]
            return res
        if op["rule"] in NEEDS_QUALIFIED and not _is_qualified(t, d):
            # the optimizer's contract: every rule after `qualify` assumes qualified tables and columns
            res["outcome"] = "skip-unqualified"
            res["targets"] = set(); res["mut_tree"] = None; res["nm"] = [t]
            return res
        st["counters"]["rule_applied"] += 1
        st["counters"]["rule:" + op["rule"]] = st["counters"].get("rule:" + op["rule"], 0) + 1
        try:
            r = _call_rule(op["rule"], t, op["schema"], d)
        except RecursionError:
            raise
        except Exception as e:
            res["outcome"] = type(e).__name__
            st["faults"]["failing_rule"] += 1
            return res
        world.origin[id(r)] = d
        if r is not t and isinstance(r, Expr):
            world.replace_slot(t, r)
            res["targets"].add(id(r)); res["mut_tree"] = r
        return res

    if k == "copy":
        t, n, _ = target(op["t"], op["n"])
        res["nm"] = [t]
        how = op["how"]
        if how == "copy":
            c = n.copy()
        elif how == "deepcopy":
            c = _copy.deepcopy(n)
        elif how == "serde":
            import json

            # through text, as a real user of dump() would: the payload itself may alias the node's meta/comments
            c = exp.Expr.load(json.loads(json.dumps(n.dump())))
        else:
            c = pickle.loads(pickle.dumps(n))
        res["new"].append((c, n, how))
        return res

    if k == "nm":
        return _apply_nm(world, op, st, res, target)

    raise ValueError(k)


def _db_args(op, n2, t2, res, st):
    """db= / catalog= given as Identifier objects (the signature allows str | Identifier): a node of a live tree when the
    second selector hits an Identifier, else a fresh mixed-case one. Either way the caller's object must come back unchanged."""
    from sqlglot import exp

    if not op.get("db_node"):
        return {}
    if isinstance(n2, exp.Identifier):
        res["nm"].append(t2)
        ident = n2
    else:
        ident = exp.to_identifier("MyDb")
        st["_lineage_col"] = (ident, inv.fingerprint(ident), ident.sql(), "db=Identifier")
    return {"db": ident, "catalog": ident} if op.get("db_node") == 2 else {"db": ident}


def _apply_nm(world, op, st, res, target):
    """Calls documented not to mutate their arguments (default copy behaviour)."""
    import sqlglot
    from sqlglot import exp
    from sqlglot.expressions.core import Expr

    f = op["f"]
    t, n, nodes = target(op["t"], op["n"])
    t2, n2, _ = world.node(op["t2"], op["n2"])
    res["nm"] = [t]
    d = op["dialect"]
    r = None
    extra_nm_nodes = []
    exhaust = op.get("exhaust")
    if exhaust is not None:
        st["faults"]["stack_exhaustion_armed"] += 1
    try:
        with _LowStack(exhaust):
            if f == "sql":
                opts = dict(op["opts"])
                if "unsupported_level" in opts:
                    opts["unsupported_level"] = getattr(sqlglot.ErrorLevel, opts["unsupported_level"])
                res["outcome"] = "ok:" + common.short_hash(n.sql(dialect=d, **opts))
            elif f == "sql_all":
                # the "x all target dialects" part of the property for this tree: every dialect's generator in one go
                acc = []
                for dd in SQL_DIALECTS:
                    try:
                        acc.append(common.short_hash(t.sql(dialect=dd), 3))
                    except RecursionError:
                        raise
                    except Exception as e:  # noqa
                        acc.append(type(e).__name__)
                res["outcome"] = "ok:" + common.short_hash(acc)
            elif f == "sql_nodes":
                # generation started at EVERY node of the tree (a sub-expression printed on its own is ordinary use: logging,
                # error messages, building new statements from pieces), for the run's hot dialects and a few others
                acc = []
                dls = [dd for i_, dd in enumerate(SQL_DIALECTS) if (i_ + op["m"]) % 4 == 0]
                for x in nodes[:80]:
                    for dd in dls:
                        try:
                            acc.append(common.short_hash(x.sql(dialect=dd), 2))
                        except RecursionError:
                            raise
                        except Exception as e:  # noqa
                            acc.append(type(e).__name__)
                res["outcome"] = "ok:" + common.short_hash(acc)
            elif f == "optimize":
                from sqlglot.optimizer import optimize

                od = world.origin.get(id(t)) if op.get("m", 0) % 2 == 0 else (d if d in (None, "duckdb", "snowflake", "bigquery", "postgres", "spark", "mysql", "tsql") else None)
                r = optimize(t, schema=_schema_objs(st) if op.get("m", 0) % 3 == 0 else _schema(), dialect=od, **_db_args(op, n2, t2, res, st))
            elif f == "plan":
                # the planner and the executor take an Expression too and document no mutation; they are at the edge of the
                # property's list ("optimizing it"), the tree is whatever the history made of it
                from sqlglot.planner import Plan

                if isinstance(t, exp.Query):
                    Plan(t)
                    res["outcome"] = "ok:planned"
                else:
                    res["outcome"] = "skip"
            elif f == "qualify_copy":
                from sqlglot.optimizer.qualify import qualify

                r = qualify(t.copy(), schema=_schema_objs(st) if op.get("m", 0) % 3 == 0 else _schema(), dialect=world.origin.get(id(t)) if op.get("m", 0) % 2 == 0 else None,
                            **_db_args(op, n2, t2, res, st))
            elif f == "annotate_copy":
                from sqlglot.optimizer.annotate_types import annotate_types

                r = annotate_types(t.copy(), schema=_schema_objs(st) if op.get("m", 0) % 3 == 0 else _schema(), dialect=world.origin.get(id(t)) if op.get("m", 0) % 2 == 0 else None)
            elif f == "diff":
                from sqlglot.diff import diff

                res["nm"].append(t2)
                kw = {"delta_only": op.get("delta_only", False)}
                if op.get("matchings") and n is not n2:
                    kw["matchings"] = [(n, n2)]
                if not (set(map(id, inv.walk(n))) & set(map(id, inv.walk(n2)))):
                    es = diff(n, n2, **kw)
                    res["outcome"] = "ok:%d" % len(es)
                else:
                    res["outcome"] = "skip-overlap"
            elif f == "lineage":
                from sqlglot.lineage import lineage

                q = t if isinstance(t, exp.Query) else None
                if q is not None and q.selects:
                    name = q.selects[op["n"] % len(q.selects)].alias_or_name
                    if name and name != "*":
                        col = exp.column(name) if op.get("col_node") else name
                        if isinstance(col, Expr):
                            extra_nm_nodes.append(col)
                            st["_lineage_col"] = (col, inv.fingerprint(col), col.sql())
                        lineage(col, q, schema=_schema(), dialect=d if d in (None, "duckdb", "snowflake", "bigquery", "postgres") else None)
                    else:
                        res["outcome"] = "skip"
                else:
                    res["outcome"] = "skip"
            elif f == "expand":
                if op.get("col_node") and isinstance(t2, exp.Query) and t2 is not t:
                    # a source given as a callable "that provides a query on demand" and hands out a tree its owner still holds
                    # (a memoising loader); the source names are tables the expanded tree really mentions
                    names = sorted({tb.name for tb in t.find_all(exp.Table) if tb.name}) or ["x"]
                    res["nm"].append(t2)
                    r = exp.expand(t, {names[op["n2"] % len(names)]: (lambda: t2), "x": "SELECT 1 AS a, 2 AS b"})
                else:
                    r = exp.expand(t, {"x": "SELECT 1 AS a, 2 AS b", "t": sqlglot.parse_one("SELECT 3 AS a")})
            elif f == "replace_tables":
                r = exp.replace_tables(t, {"x": "xx.yy", "t": "c.d.t2"}, dialect=d)
            elif f == "replace_placeholders":
                r = exp.replace_placeholders(t, 1, "s", a=2)
            elif f == "placeholders_expr":
                # substitution VALUES given as Expressions taken from a live tree: they must not be adopted by the result
                r = exp.replace_placeholders(sqlglot.parse_one("SELECT :a, :a, ? FROM t WHERE x = :b"), n2, a=n, b=n2)
                res["nm"].append(t2)
            elif f == "update_fn":
                cond = n if isinstance(n, exp.Condition) and not isinstance(n, exp.Query) else "k = 1"
                r = exp.update("tgt", {"x": n2, "y": 1}, where=cond, from_=None)
                res["nm"].append(t2)
            elif f == "insert_fn":
                q = t if isinstance(t, exp.Query) else "SELECT 1 AS a"
                r = exp.insert(q, "tgt", columns=["a"], returning=n2 if isinstance(n2, (exp.Column, exp.Star)) else None)
                res["nm"].append(t2)
            elif f == "column_fn":
                r = exp.column(n if isinstance(n, (exp.Identifier, exp.Star)) else "c", table=n2 if isinstance(n2, exp.Identifier) else "tt")
                res["nm"].append(t2)
            elif f == "maybe_parse_copy":
                r = exp.maybe_parse(n, copy=True)
            elif f == "binop":
                which = op["n2"] % 8
                if which == 0:
                    r = n + n2
                elif which == 1:
                    r = n & n2
                elif which == 2:
                    r = n[n2]
                elif which == 3:
                    r = -n
                elif which == 4:
                    r = ~n
                elif which == 5:
                    r = n | 1
                elif which == 6:
                    r = 2 * n
                else:
                    r = n < n2
                res["nm"].append(t2)
            elif f == "dump":
                res["outcome"] = "ok:%d" % len(n.dump())
            elif f == "to_s":
                res["outcome"] = "ok:%d" % len(n.to_s())
            elif f == "alias_":
                r = exp.alias_(n, "al")
            elif f == "subquery_fn":
                r = exp.subquery(t, "al") if isinstance(t, exp.Query) else None
            elif f == "not_fn":
                r = exp.not_(n)
            elif f == "and_fn":
                r = exp.and_(n, n2, "k = 1")
                res["nm"].append(t2)
            elif f == "cast_fn":
                r = exp.cast(n, "text")
            elif f == "union_fn":
                if isinstance(t, exp.Query) and isinstance(t2, exp.Query) and t is not t2:
                    r = exp.union(t, t2)
                    res["nm"].append(t2)
            elif f == "find_tables":
                res["outcome"] = "ok:%d" % len(exp.find_tables(t))
            elif f == "copy_eq":
                c = n.copy()
                res["new"].append((c, n, "copy"))
            elif f == "refl":
                # "every builder ... call made with copy=True": any public method of the target's class that takes `copy`, with the
                # default (copying) behaviour; arguments are strings or detached expressions, so only the receiver is at stake
                ms = _refl_methods(type(n))
                if ms:
                    name = ms[op.get("m", 0) % len(ms)]
                    args = list(REFL_ARGS.get(name, ["zz"]))
                    if op.get("col_node"):
                        args = [exp.maybe_parse(a) if isinstance(a, str) else a for a in args]
                    res["refl"] = name
                    r = getattr(n, name)(*args)
                    res["outcome"] = "ok:" + name
                else:
                    res["outcome"] = "skip"
            elif f == "refl_fn":
                cl = _refl_fn_calls(exp, n, n2)
                name, fn = cl[op.get("m", 0) % len(cl)]
                res["refl"] = name
                res["nm"].append(t2)
                r = fn()
                res["outcome"] = ("ok:" if r is not None else "skip:") + name
            else:
                raise ValueError(f)
    except RecursionError:
        res["outcome"] = "RecursionError"
        st["faults"]["stack_exhaustion"] += 1
    except Exception as e:
        res["outcome"] = type(e).__name__
    if isinstance(r, Expr) and (op.get("keep") or f in ("refl", "refl_fn")) and len(inv.walk(r)) <= MAX_NODES:
        res["new"].append((r, None, "nm:" + f + (":" + res["refl"] if "refl" in res else "")))
    return res


# --------------------------------------------------------------------------- the run loop + oracles

C08_ORACLES = ("I1-link", "I2-dup", "I3-stale-hash", "I4-eq-clone", "I4-eq-sql", "I4-eq-leaf", "I4-unhashable", "I5-frame")
C09_ORACLES = ("N1-arg-mutated", "N2-arg-sql-changed", "N3-copy-not-equal", "N4-copy-shares-node", "N4-copy-shares-state", "N5-arg-cache-link")


def execute(record, state=None):
    from sqlglot.expressions.core import Expr

    cfg = record["config"]
    mode = cfg["mode"]
    world = World()
    st = {"faults": {"abort_callback": 0, "bad_builder_arg": 0, "stack_exhaustion": 0, "stack_exhaustion_armed": 0, "failing_rule": 0},
          "counters": {"rule_applied": 0}}
    probes = {"mutate_under_cached_root": 0, "compare_after_grandchild_edit": 0, "aborted_transform": 0, "rule_applied_to_cached_tree": 0,
              "nm_on_cached_tree": 0, "nm_raised": 0, "copy_then_edit": 0, "diff_on_subtree": 0, "sql_changed_edits": 0}
    results = []
    sig_ops = []
    situations = set()
    violation = None
    other_prop = None
    nontrivial = False
    fps = {}  # id(tree) -> fingerprint after previous step
    nm_dialects = {}  # id(tree) -> set of dialects used by non-mutating calls
    copies = {}  # id(copy root) -> True  (trees that are copies of something still live)
    edited_after_cached = False

    def fail(oracle, cls, step, detail):
        return {"oracle": oracle, "cls": cls, "step": step, "detail": detail}

    res = {}

    def nmn(op_):
        return _nm_name(op_) + (":" + res["refl"] if res.get("refl") else "")

    for step, op in enumerate(record["ops"]):
        k = op["k"]
        # ----- pre-state
        pre_trees = list(world.trees)
        pre_fp = {id(t): fps.get(id(t)) or inv.fingerprint(t) for t in pre_trees}
        pre_sql = None
        snap = None
        tgt_tree = None
        if world.trees and k in ("set", "set_case", "set_leaf", "set_idx", "append", "replace", "pop", "transform", "replace_children", "replace_tree", "builder", "wrap", "set_kwargs", "rule", "meta_put", "meta_mut", "rewrap"):
            tgt_tree = world.tree(op["t"])
            pre_sql = _sql(tgt_tree)
            if pre_sql is not None:
                snap = inv.clone(tgt_tree)
        elif world.trees and k == "nm":
            tgt_tree = world.tree(op["t"])
            pre_sql = _sql(tgt_tree)
        # ----- execute
        try:
            res = _apply(world, op, st)
        except RecursionError:
            res = {"outcome": "RecursionError!", "targets": set(id(t) for t in world.trees), "nm": [], "new": [], "mut_tree": None, "cls": "-", "pos": "-", "cache": "-"}
        except SimAbort:
            res = {"outcome": "SimAbort!", "targets": set(id(t) for t in world.trees), "nm": [], "new": [], "mut_tree": None, "cls": "-", "pos": "-", "cache": "-"}
        except Exception as e:  # a public mutator raised on a legal call: recorded in the digest; invariants are still checked below
            res = {"outcome": "EXC:" + type(e).__name__, "targets": set(id(t) for t in world.trees), "nm": [], "new": [], "mut_tree": None, "cls": "-", "pos": "-", "cache": "-"}
        outcome = res["outcome"]
        res["nm"] = [a for i, a in enumerate(res["nm"]) if not any(a is b for b in res["nm"][:i])]
        is_mut = bool(res["targets"])
        sig_ops.append("%s/%s/%s/%s/%s" % (k if k != "nm" else "nm:" + op["f"], res["cls"], res["pos"], res["cache"], outcome.split(":")[0]))
        situations.add("%s|%s|%s" % (k if k != "nm" else "nm:" + op["f"], res["pos"], res["cache"]))
        if is_mut and res["cache"] in ("self", "ancestor"):
            nontrivial = nontrivial or mode == "C08"
            probes["mutate_under_cached_root"] += 1
            edited_after_cached = True
            if k == "rule":
                probes["rule_applied_to_cached_tree"] += 1
        if k in ("eq", "inset") and edited_after_cached:
            probes["compare_after_grandchild_edit"] += 1
        if outcome.startswith("SimAbort"):
            probes["aborted_transform"] += 1
        if k == "nm" and op["f"] == "diff" and res["pos"] != "root":
            probes["diff_on_subtree"] += 1
        if res["nm"] and k == "nm":
            a = res["nm"][0]
            if a._hash is not None:
                probes["nm_on_cached_tree"] += 1
                nontrivial = nontrivial or mode == "C09"
            ds = nm_dialects.setdefault(id(a), set())
            if op["f"] == "sql":
                if ds and op["dialect"] not in ds:
                    nontrivial = nontrivial or mode == "C09"
                ds.add(op["dialect"])
            if not outcome.startswith("ok") and not outcome.startswith("skip"):
                probes["nm_raised"] += 1
        if is_mut and any(id(t) in copies for t in pre_trees if id(t) in res["targets"]):
            probes["copy_then_edit"] += 1

        # ----- C09 oracles on arguments of non-mutating calls (also when the call raised)
        v = None
        for a in res["nm"]:
            if id(a) not in pre_fp:
                continue
            now = inv.fingerprint(a)
            if now != pre_fp[id(a)]:
                v = fail("N1-arg-mutated", nmn(op), step, "%s changed its argument tree: %s" % (nmn(op), inv.first_diff(pre_fp[id(a)], now)))
                break
        if v is None and k == "nm" and tgt_tree is not None and pre_sql is not None and id(tgt_tree) in pre_fp:
            if _sql(tgt_tree) != pre_sql:
                v = fail("N2-arg-sql-changed", nmn(op), step, "%s changed the SQL of its argument: %r -> %r" % (nmn(op), pre_sql[:120], (_sql(tgt_tree) or "")[:120]))
        if v is None and "_lineage_col" in st:
            col, fp0, sql0, *lab = st.pop("_lineage_col")
            if inv.fingerprint(col) != fp0 or col.sql() != sql0:
                v = fail("N1-arg-mutated", "%s(%s)" % (nmn(op), lab[0] if lab else "column=node"), step,
                         "%s changed the caller's %s: %r -> %r (%s)" % (nmn(op), "column node" if not lab else lab[0] + " object", sql0, col.sql(), inv.first_diff(fp0, inv.fingerprint(col))))
        st.pop("_lineage_col", None)
        for obj_, fp0_, sql0_, lab_ in st.pop("_extra_args", []):
            if v is not None:
                break
            if inv.fingerprint(obj_) != fp0_ or obj_.sql() != sql0_:
                v = fail("N1-arg-mutated", "%s(%s)" % (nmn(op), lab_.split(" ")[0] + " object"), step,
                         "%s changed the caller's %s: %r -> %r (%s)" % (nmn(op), lab_, sql0_, obj_.sql(), inv.first_diff(fp0_, inv.fingerprint(obj_))))
        for new, src, kind in res["new"]:
            if v is not None:
                break
            if src is not None:
                strict = kind in ("copy", "deepcopy")  # serde/pickle are C12's subject: only equality is required of them here
                if not inv.eq_preserving(new, src) or type(new) is not type(src) or (strict and inv.structure(new)[1:] != inv.structure(src)[1:]):
                    v = fail("N3-copy-not-equal", kind, step, "%s of a %s node is not equal/structurally identical to the original" % (kind, type(src).__name__))
                    break
            live_ids = {}
            for t in world.trees:
                for x in inv.walk(t):
                    live_ids[id(x)] = t
            shared = [x for x in inv.walk(new) if id(x) in live_ids]
            if shared:
                v = fail("N4-copy-shares-node", kind, step, "result of %s shares %d node(s) (first: %s) with a live argument tree" % (kind, len(shared), type(shared[0]).__name__))
                break
            # ... nor any other mutable object: meta dicts and the lists / dicts / expressions stored in them, comment lists,
            # type annotations. Judged for the trees the call was given (copy source / declared arguments).
            srcs = ([src] if src is not None else []) + list(res["nm"])
            if srcs:
                live_aux = {}
                for a_ in srcs:
                    root_ = a_
                    while root_.parent is not None:
                        root_ = root_.parent
                    live_aux.update(inv.aux_objects(root_))
                sh = sorted(d_ for i_, d_ in inv.aux_objects(new).items() if i_ in live_aux)
                if sh:
                    v = fail("N4-copy-shares-state", kind, step, "result of %s shares %d mutable object(s) (first: %s) with the tree it was made from" % (kind, len(sh), sh[0]))
                    break
        if v is None and res["nm"] and k in ("nm", "copy", "transform", "builder", "wrap"):
            # a non-mutating call must not leave a broken link or stale hash behind on its argument either
            le = inv.check_links(res["nm"])
            he = []
            if not le:
                for a in res["nm"]:
                    he = [x for x in inv.check_hashes(a)[0] if x[0] != "I4-unhashable"]
                    if he:
                        break
            if le or he:
                e = (le or he)[0]
                v = fail("N5-arg-cache-link", nmn(op) + ":" + e[0], step, "after %s the argument tree violates %s: %s" % (nmn(op), e[0], e[1]))
        if v is not None:
            if mode == "C09":
                violation = v
            else:
                other_prop = "C09:" + v["oracle"]
            results.append([k, outcome, "STOP"])
            break

        # ----- admit new trees
        for new, src, kind in res["new"]:
            world.add_tree(new)
            if src is not None or kind.endswith("_copy"):
                copies[id(new)] = True
        # drop oversized trees deterministically
        for t in list(world.trees):
            if len(inv.walk(t)) > MAX_NODES and len(world.trees) > 1:
                world.trees = [x for x in world.trees if x is not t]

        # ----- C08 invariants on the whole forest
        v = None
        le = inv.check_links(world.trees, world.pool)
        if le:
            e = le[0]
            v = fail(e[0], "%s@%s" % (_opname(op), e[2]), step, "after %s: %s" % (_opname(op), e[1]))
        elif res.get("twin_shared"):
            v = fail("I2-dup", "parse@twin:%s" % res["twin_cls"], step, "after parse: %s" % res["twin_shared"])
        if v is None:
            for t in world.trees:
                he, _ = inv.check_hashes(t)
                if he and he[0][0] == "I4-unhashable" and not (k == "parse" and res["new"] and res["new"][0][0] is t):
                    he = []  # only a tree straight out of the parser is required to be hashable; edits can nest lists
                if he:
                    e = he[0]
                    v = fail(e[0], "%s@%s" % (_opname(op), e[2]), step, "after %s: %s" % (_opname(op), e[1]))
                    break
        if v is None and snap is not None and res["mut_tree"] is not None and not outcome.startswith("skip"):
            mt = res["mut_tree"]
            now_sql = _norm_sql(mt)
            pre_sql = _norm_sql(snap)
            if now_sql is not None and pre_sql is not None and now_sql != pre_sql:
                probes["sql_changed_edits"] += 1
                # a case-only edit of an enum-like flag (Trim.position = 'leading') may change which keywords are printed: not judged;
                # judged is a case-only edit whose whole visible effect is the text of a string literal / quoted identifier
                judged = now_sql[0] != pre_sql[0] if k != "set_case" else (bool(res.get("case_judged")) and now_sql[0] == pre_sql[0] and now_sql[1] != pre_sql[1])
                if judged and type(mt) is type(snap) and inv.eq_preserving(mt, snap):
                    diff = next(((a_, b_) for a_, b_ in zip(pre_sql[1], now_sql[1]) if a_ != b_), None) if now_sql[0] == pre_sql[0] else (pre_sql[0][:100], now_sql[0][:100])
                    v = fail("I4-eq-sql", _opname(op), step, "after %s the SQL changed (%r -> %r) but the tree still compares equal to its pre-edit snapshot" % (_opname(op), diff[0], diff[1]))
        if v is None and k == "set_leaf" and res.get("leaf_edit") and snap is not None and res["mut_tree"] is not None:
            # "equal exactly when same structure and leaf values": 0, "" and True are values; only None / False / [] mean "absent"
            mt = res["mut_tree"]
            if type(mt) is type(snap) and inv.eq_preserving(mt, snap):
                v = fail("I4-eq-leaf", _opname(op), step, "after changing the leaf %s the tree still compares equal to its pre-edit snapshot" % res["leaf_edit"])
            elif res.get("leaf_absent_equal"):
                v = fail("I4-eq-leaf", _opname(op), step, res["leaf_absent_equal"])
        if v is None:
            # I5 frame: trees that are not declared targets keep their strict fingerprint
            for t in pre_trees:
                if id(t) in res["targets"] or not world.has(t):
                    continue
                now = inv.fingerprint(t)
                if now != pre_fp[id(t)]:
                    if any(t is a for a in res["nm"]):
                        continue  # argument of a non-mutating call: judged by the C09 oracle above
                    v = fail("I5-frame", _opname(op), step, "%s changed a tree it was not applied to: %s" % (_opname(op), inv.first_diff(pre_fp[id(t)], now)))
                    break
        if v is not None:
            if mode == "C08":
                violation = v
            else:
                other_prop = "C08:" + v["oracle"]
            results.append([k, outcome, "STOP"])
            break
        fps = {id(t): inv.fingerprint(t) for t in world.trees}
        results.append([k, outcome, [len(inv.walk(t)) for t in world.trees], common.short_hash(_sql(world.trees[-1]) if world.trees else "")])

    faults = dict(st["faults"])
    return {
        "violation": violation,
        "digest": common.digest(results),
        "sig": common.short_hash(sig_ops),
        "nontrivial": nontrivial,
        "steps": len(results),
        "faults": faults,
        "probes": probes,
        "population": "faulted" if cfg["faults"] else "fault_free",
        "situations": sorted(situations),
        "counters": dict(st["counters"], stopped_by_other_property=1 if other_prop else 0),
    }


def _nm_name(op):
    if op["k"] == "nm":
        s = op["f"]
        if op["f"] == "sql":
            s += "(%s%s)" % (op["dialect"], "," + ",".join(sorted(op["opts"])) if op["opts"] else "")
        return s
    if op["k"] in ("transform", "builder", "wrap"):
        return "%s(copy=True)%s" % (op["k"], ":" + op.get("b", "") if "b" in op else "")
    return op["k"] + (":" + op["how"] if "how" in op else "")


def _opname(op):
    k = op["k"]
    if k == "nm":
        return "nm:" + op["f"]
    if k in ("builder", "wrap"):
        return "%s:%s(copy=%s)" % (k, op["b"], op["copy"])
    if k == "rule":
        return "rule:" + op["rule"]
    if k == "set_idx":
        return "set_idx:" + op["mode"]
    if k == "set_leaf":
        return "set_leaf:" + op["mode"]
    if k == "replace":
        return "replace:" + op["with"]
    if k == "transform":
        return "transform(copy=%s%s)" % (op["copy"], ",abort" if op["abort"] else "")
    if k == "copy":
        return "copy:" + op["how"]
    if k == "rewrap":
        return "rewrap:%s:%s" % (op["mode"], op["w"])
    return k


def signature(record, outcome):
    """Finding signature. For violations produced by a producer or a rule (parse, rule:*), the call site identifies the
    defect: (oracle, failing op, Parent.arg where the inconsistency sits). For everything else the multiset of op kinds of
    the minimised history is part of the signature."""
    v = outcome.get("violation") or {}
    step = v.get("step")
    ops = record["ops"]
    last = ops[step] if step is not None and step < len(ops) else {}
    if last.get("k") in ("parse", "rule") and v.get("oracle", "").startswith(("I1", "I2")):
        return common.short_hash([v.get("oracle"), v.get("cls")], 8)
    kinds = sorted(set(_opname(o) for o in ops if o["k"] != "parse"))
    return common.short_hash([v.get("oracle"), v.get("cls"), kinds], 8)


def describe(record, outcome):
    v = outcome.get("violation")
    lines = ["%s violation [%s] at op %s: %s" % (record["config"]["mode"], v["oracle"], v["step"], v["detail"]),
             "  minimised history (%d ops):" % len(record["ops"])]
    for i, op in enumerate(record["ops"]):
        d = {kk: vv for kk, vv in op.items() if kk not in ("k",) and vv not in (None, {}, [])}
        lines.append("    %2d. %s %s" % (i, _opname(op), _copy.deepcopy(d) if len(str(d)) < 300 else str(d)[:300]))
    return "\n".join(lines)


def simplify_record(rec, violation, state, same):
    """After ddmin: try to make selectors small (n -> 0, t -> 0) and drop optional arguments, keeping the violation class."""
    calls = 0
    for i in range(len(rec["ops"])):
        for key, val in (("exhaust", None), ("abort", None), ("opts", {}), ("bad", False), ("matchings", False), ("keep", False), ("n2", 0), ("t2", 0), ("n", 0), ("t", 0)):
            if key in rec["ops"][i] and rec["ops"][i][key] != val:
                r2 = _copy.deepcopy(rec)
                r2["ops"][i][key] = val
                calls += 1
                try:
                    if same(execute(r2, state).get("violation"), violation):
                        rec = r2
                except Exception:
                    pass
                if calls > 150:
                    return rec, calls
    return rec, calls
