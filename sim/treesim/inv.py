"""Tree invariants and fingerprints for treesim (C08/C09).

Everything here only *reads* trees, except `clone`, which builds a new cache-free tree through the
public constructors so that the real hash function is the oracle for every cached hash.
"""


def _Expr():
    from sqlglot.expressions.core import Expr

    return Expr


def clone(n, Expr=None, drop_falsy=False):
    """Cache-free structural clone through public constructors (iterative, no recursion limit issues)."""
    Expr = Expr or _Expr()
    if not isinstance(n, Expr):
        return n
    root_holder = []
    # post-order construction using an explicit stack
    stack = [(n, None, None, None, False)]
    built = {}
    order = []
    work = [n]
    while work:
        node = work.pop()
        order.append(node)
        for v in node.args.values():
            if isinstance(v, Expr):
                work.append(v)
            elif type(v) is list:
                for x in v:
                    if isinstance(x, Expr):
                        work.append(x)
    for node in reversed(order):
        # empty constructor + set(): some constructors (TimeUnit) rewrite their arguments, which would make the
        # clone structurally different from a tree that reached the same state through set()
        c = type(node)()
        for k, v in node.args.items():
            if isinstance(v, Expr):
                c.set(k, built[id(v)])
            elif type(v) is list:
                if not (drop_falsy and not v):
                    c.set(k, [built[id(x)] if isinstance(x, Expr) else x for x in v])
            elif not (drop_falsy and (v is None or v is False)):
                c.args[k] = v
        built[id(node)] = c
    del stack, root_holder
    return built[id(n)]


def walk(root, Expr=None):
    """Pre-order DFS over reachable nodes following args (not parent pointers); each stored slot visited."""
    Expr = Expr or _Expr()
    out = []
    stack = [root]
    while stack:
        n = stack.pop()
        out.append(n)
        kids = []
        for v in n.args.values():
            if isinstance(v, Expr):
                kids.append(v)
            elif type(v) is list:
                kids.extend(x for x in v if isinstance(x, Expr))
        stack.extend(reversed(kids))
    return out


def check_links(roots, pool=(), limit=4):
    """I1 + I2 over a forest. Returns list of (code, description, where)."""
    Expr = _Expr()
    errs = []
    seen = {}
    for ri, root in enumerate(roots):
        if root is None:
            continue
        if id(root) in seen:
            errs.append(("I2-dup", "root of tree %d is also stored at %s" % (ri, seen[id(root)]), "root"))
            continue
        seen[id(root)] = "root[%d]" % ri
        stack = [root]
        while stack and len(errs) < limit:
            n = stack.pop()
            for k, v in n.args.items():
                items = list(enumerate(v)) if type(v) is list else [(None, v)]
                for i, c in items:
                    if not isinstance(c, Expr):
                        continue
                    where = "%s.%s" % (type(n).__name__, k)
                    slot = "tree%d:%s[%s]" % (ri, where, i)
                    if id(c) in seen:
                        errs.append(("I2-dup", "%s node stored at %s and at %s" % (type(c).__name__, seen[id(c)], slot), where))
                        continue
                    seen[id(c)] = slot
                    if c.parent is not n or c.arg_key != k or c.index != i:
                        errs.append((
                            "I1-link",
                            "%s stored at %s records parent_ok=%s arg_key=%r index=%r" % (type(c).__name__, slot, c.parent is n, c.arg_key, c.index),
                            where,
                        ))
                    stack.append(c)
    for pi, p in enumerate(pool):
        for n in walk(p, Expr):
            if id(n) in seen:
                errs.append(("I2-dup", "%s node in detached pool[%d] is also stored at %s" % (type(n).__name__, pi, seen[id(n)]), "pool"))
                break
            seen[id(n)] = "pool[%d]" % pi
    return errs


def check_hashes(root):
    """I3: every cached hash equals the hash recomputed from scratch on a cache-free clone.
    I4a: tree == its cache-free clone (real __eq__)."""
    Expr = _Expr()
    errs = []
    nodes = walk(root, Expr)
    if len(set(map(id, nodes))) != len(nodes):
        return errs, False  # duplicated nodes: reported by check_links; parallel walk below would be meaningless
    c = clone(root, Expr)
    try:
        hash(c)
    except TypeError:
        # a tree in which an edit has put a list inside a list argument is unhashable for sqlglot itself (hash(tree)
        # raises for the user as well): nothing to compare cached hashes with
        return [("I4-unhashable", "hash() of the %s tree raises TypeError (a list nested inside a list argument: its members are not linked to a parent either)" % type(root).__name__, type(root).__name__)], False
    cnodes = walk(c, Expr)
    if len(cnodes) != len(nodes):
        return [("harness", "clone walk mismatch", "")], False
    any_cached = False
    for n, cn in zip(nodes, cnodes):
        if n._hash is not None:
            any_cached = True
            if n._hash != hash(cn):
                errs.append(("I3-stale-hash", "cached hash of %s node (%s) differs from hash recomputed from scratch" % (type(n).__name__, _short(n)), type(n).__name__))
                break
    if not errs and not eq_preserving(root, c):
        errs.append(("I4-eq-clone", "tree != structurally identical clone of itself (%s)" % _short(root), type(root).__name__))
    return errs, any_cached


def _short(n):
    try:
        return n.sql()[:80]
    except Exception:
        return repr(n)[:80]


def fingerprint(root):
    """Strict structural fingerprint: identity of every node and link, scalar args, comments, type, meta."""
    Expr = _Expr()
    out = []
    stack = [root]
    while stack:
        node = stack.pop()
        out.append((
            type(node).__name__, id(node), id(node.parent) if node.parent is not None else None, node.arg_key, node.index,
            tuple(node.comments) if node.comments else None,
            _tstr(node, Expr),
            repr(sorted(node._meta.items(), key=repr)) if node._meta else None,
        ))
        for key, v in node.args.items():
            if isinstance(v, Expr):
                out.append((key,))
                stack.append(v)
            elif type(v) is list:
                out.append((key, len(v)))
                for j, x in enumerate(v):
                    if isinstance(x, Expr):
                        stack.append(x)
                    else:
                        out.append((key, j, repr(x)))
            else:
                out.append((key, repr(v)))
    return out


def aux_objects(root):
    """id -> description of every MUTABLE object hanging off the nodes of a tree besides the nodes themselves: the meta dict and
    the lists / dicts / sets / expressions stored in it, the comments list, a type annotation that is not itself a node of the tree.
    A copy must share none of these with its original ("editing either never affects the other")."""
    Expr = _Expr()
    nodes = walk(root, Expr)
    own = {id(n) for n in nodes}
    out = {}

    def add(v, where, depth=0):
        if isinstance(v, Expr):
            for x in walk(v, Expr):
                if id(x) not in own:
                    out.setdefault(id(x), where + ":" + type(x).__name__)
        elif isinstance(v, (list, dict, set)) and depth < 4:
            out.setdefault(id(v), where + ":" + type(v).__name__)
            for x in (v.values() if isinstance(v, dict) else v):
                add(x, where, depth + 1)

    for n in nodes:
        if n._meta is not None:
            out.setdefault(id(n._meta), type(n).__name__ + ".meta")
            for k in n._meta:
                add(n._meta[k], "%s.meta[%r]" % (type(n).__name__, k))
        if n.comments is not None:
            out.setdefault(id(n.comments), type(n).__name__ + ".comments")
        if n._type is not None:
            add(n._type, type(n).__name__ + ".type")
    return out


def structure(root):
    """Identity-free structural fingerprint (for comparing a copy with its original)."""
    Expr = _Expr()
    out = []
    stack = [root]
    while stack:
        node = stack.pop()
        out.append((type(node).__name__, node.arg_key, node.index, tuple(node.comments) if node.comments else None,
                    _tstr(node, Expr, by_identity=False),
                    repr(sorted(node._meta.items(), key=repr)) if node._meta else None))
        for key, v in node.args.items():
            if isinstance(v, Expr):
                out.append((key,))
                stack.append(v)
            elif type(v) is list:
                out.append((key, len(v)))
                for j, x in enumerate(v):
                    if isinstance(x, Expr):
                        stack.append(x)
                    else:
                        out.append((key, j, repr(x)))
            else:
                out.append((key, repr(v)))
    return out


def first_diff(a, b):
    for i, (x, y) in enumerate(zip(a, b)):
        if x != y:
            return "entry %d: %r -> %r" % (i, _noid(x), _noid(y))
    if len(a) != len(b):
        return "fingerprint length %d -> %d" % (len(a), len(b))
    return "none"


def _noid(x):
    if isinstance(x, tuple) and len(x) == 8:
        return (x[0], x[3], x[4], x[5], x[6], x[7])
    return x


def _tstr(node, Expr, by_identity=True):
    """Fingerprint of a node's type annotation. exp.cast() annotates a Cast with its own `to` node (the same object), so
    for nodes that have a `to` argument the annotation is compared by identity only: its contents are a tree node (or a
    former one) that the caller may legitimately edit or re-attach elsewhere."""
    ty = node._type
    if ty is None:
        return None
    if isinstance(ty, Expr):
        if by_identity and "to" in node.arg_types:
            return "type@%d" % id(ty)
        try:
            return ty.sql()
        except Exception:
            return type(ty).__name__
    return repr(ty)


def eq_preserving(a, b):
    """a == b through the real __eq__, then put every `_hash` back exactly as the history left it, so that the
    oracle itself never changes the cache state the simulated history has produced."""
    Expr = _Expr()
    saved = [(n, n._hash) for n in walk(a, Expr)] + [(n, n._hash) for n in walk(b, Expr)]
    try:
        return a == b
    finally:
        for n, h in saved:
            n._hash = h
