"""Delta debugging over a list. `test(candidate_list) -> bool` (True = still fails the same way).

Deterministic: no randomness, candidates tried in a fixed order. `budget` bounds the number of
test evaluations so that shrinking always terminates quickly.
"""


def ddmin(items, test, budget=400):
    items = list(items)
    calls = [0]

    def t(c):
        if calls[0] >= budget:
            return False
        calls[0] += 1
        return test(c)

    n = 2
    while len(items) >= 2 and calls[0] < budget:
        chunk = max(1, len(items) // n)
        subsets = [items[i : i + chunk] for i in range(0, len(items), chunk)]
        reduced = False
        # try complements (remove one chunk)
        for k in range(len(subsets)):
            cand = [x for j, s in enumerate(subsets) if j != k for x in s]
            if cand and t(cand):
                items = cand
                n = max(n - 1, 2)
                reduced = True
                break
        if not reduced:
            if chunk == 1:
                break
            n = min(len(items), n * 2)
    # final one-at-a-time pass
    changed = True
    while changed and calls[0] < budget:
        changed = False
        for i in range(len(items)):
            cand = items[:i] + items[i + 1 :]
            if cand and t(cand):
                items = cand
                changed = True
                break
    return items, calls[0]
