"""known_findings.txt reader. The file is committed and never written at run time.

Lines:
  finding: property=<id> sig=<signature> <what fails>     -> suppresses exactly that signature
  fixed: property=<id> <commit> <what failed>             -> informational only, suppresses nothing
"""
import os

from sim.core import common


def load(path=None):
    path = path or os.path.join(common.VERIF_DIR, "known_findings.txt")
    out = []
    if not os.path.exists(path):
        return out
    for line in open(path):
        line = line.strip()
        if not line.startswith("finding:"):
            continue
        parts = line[len("finding:") :].split()
        d = {"text": ""}
        rest = []
        for p in parts:
            if p.startswith("property=") and "property" not in d:
                d["property"] = p.split("=", 1)[1]
            elif p.startswith("sig=") and "sig" not in d:
                d["sig"] = p.split("=", 1)[1]
            else:
                rest.append(p)
        d["text"] = " ".join(rest)
        if "property" in d and "sig" in d:
            out.append(d)
    return out


def match(known, prop, sig):
    for k in known:
        if k["property"] == prop and k["sig"] == sig:
            return "sig=%s %s" % (sig, k["text"])
    return None
