"""Generic check driver: seeded batch of simulated runs -> oracles -> confirm -> shrink -> replay file -> evidence.

An engine is a module exposing:
  PROPS, RULE, COMPONENTS, LEVEL_NOTE
  plan(prop, tier) -> {"runs": int, "chunk": int, "wall_cap": seconds, "selftest": int}
  worker_init(prop, tier) -> state ; worker_close(state)
  generate(prop, run_seed, tier) -> record (JSON-able; replay = execute(record))
  execute(record, state) -> outcome (JSON-able, see below)
  shrink_axes(record) -> list of (name, getter, setter) lists that ddmin may reduce   [optional]
  signature(record, outcome) -> str ; describe(record, outcome) -> str

outcome = {"violation": None | {"oracle","cls","step","detail"}, "digest", "sig", "nontrivial",
           "steps", "faults": {kind: fired}, "probes": {name: n}, "population"}
"""
import concurrent.futures as cf
import copy
import faulthandler
import importlib
import json
import multiprocessing
import os
import subprocess
import sys
import traceback

from sim.core import common, findings
from sim.core.ddmin import ddmin

WORKERS = int(os.environ.get("VERIF_WORKERS", "0")) or min(16, os.cpu_count() or 4)


def _engine(name):
    return importlib.import_module(name)


# --------------------------------------------------------------------------- worker side


class RunTimeout(BaseException):
    """A single simulated run exceeded its wall allowance (resource guard, not an oracle)."""


def _on_alarm(signum, frame):
    raise RunTimeout()


def _guard(eng, prop, tier):
    """Resource guards for a worker: address-space cap and a per-run alarm. A run that trips either is DISCARDED and
    counted (never a pass, never a violation): runaway time/memory of a single call is C05's subject, not this check's."""
    import resource
    import signal

    p = eng.plan(prop, tier)
    cap = p.get("mem_cap_gb", 6)
    if cap:
        try:
            resource.setrlimit(resource.RLIMIT_AS, (cap << 30, cap << 30))
        except (ValueError, OSError):
            pass
    signal.signal(signal.SIGALRM, _on_alarm)
    return p.get("run_timeout", 180)


def _work(engine_name, prop, tier, seed, indices, keep_records):
    import gc
    import signal

    faulthandler.enable()
    eng = _engine(engine_name)
    state = eng.worker_init(prop, tier)
    run_timeout = _guard(eng, prop, tier)
    out = []
    try:
        for i in indices:
            rs = common.derive_seed(prop, seed, i)
            rec = eng.generate(prop, rs, tier)
            try:
                signal.alarm(run_timeout)
                try:
                    oc = eng.execute(rec, state)
                finally:
                    signal.alarm(0)
            except RunTimeout:
                oc = {"aborted": "run-timeout"}
            except MemoryError:
                oc = {"aborted": "memory-cap"}
                gc.collect()
            except Exception:
                oc = {"harness_error": traceback.format_exc()}
            summ = {"i": i, "run_seed": rs}
            summ.update(oc)
            if oc.get("aborted"):
                summ["record"] = rec
            if oc.get("violation") or oc.get("harness_error") or i in keep_records:
                summ["record"] = rec
            out.append(summ)
    finally:
        eng.worker_close(state)
    return out


def _work_records(engine_name, prop, tier, records, base=0):
    """Executes explicit records (e.g. the ones an engine's prepare() phase wants judged) like ordinary runs."""
    faulthandler.enable()
    eng = _engine(engine_name)
    state = eng.worker_init(prop, tier)
    out = []
    try:
        for k, rec in enumerate(records):
            try:
                oc = eng.execute(rec, state)
            except Exception:
                oc = {"harness_error": traceback.format_exc()}
            summ = {"i": -(base + k + 1), "run_seed": 1000000 + base + k, "record": rec}
            summ.update(oc)
            out.append(summ)
    finally:
        eng.worker_close(state)
    return out


def _same(v1, v2):
    return bool(v1) and bool(v2) and v1["oracle"] == v2["oracle"] and v1.get("cls") == v2.get("cls")


def _shrink(engine_name, prop, tier, record, violation):
    """Runs in a pool worker: ddmin along every axis the engine offers while the same violation class persists."""
    eng = _engine(engine_name)
    state = eng.worker_init(prop, tier)
    _guard(eng, prop, tier)
    calls = 0
    try:
        rec = copy.deepcopy(record)
        budget = eng.plan(prop, tier).get("ddmin_budget", 300)
        if hasattr(eng, "shrinkable") and not eng.shrinkable(violation):
            return rec, eng.execute(rec, state), 1
        if hasattr(eng, "concretize"):
            rec2 = eng.concretize(rec, state)
            calls += 1
            if _same(eng.execute(rec2, state).get("violation"), violation):
                rec = rec2
        axes = eng.shrink_axes(rec) if hasattr(eng, "shrink_axes") else [("ops", "ops")]
        for _round in range(2):
            for _name, key in axes:
                items = _get(rec, key)
                if not isinstance(items, list) or len(items) < 2:
                    continue

                def test(cand, key=key):
                    r2 = copy.deepcopy(rec)
                    _set(r2, key, cand)
                    try:
                        oc = eng.execute(r2, state)
                    except Exception:
                        return False
                    return _same(oc.get("violation"), violation)

                small, n = ddmin(items, test, budget=budget)
                calls += n
                _set(rec, key, small)
        if hasattr(eng, "simplify_record"):
            rec, n = eng.simplify_record(rec, violation, state, _same)
            calls += n
        oc = eng.execute(rec, state)
        if not _same(oc.get("violation"), violation):
            rec = record
            oc = eng.execute(rec, state)
        return rec, oc, calls
    finally:
        eng.worker_close(state)


def _get(rec, key):
    cur = rec
    for k in key.split("/"):
        cur = cur[int(k)] if isinstance(cur, list) else cur[k]
    return cur


def _set(rec, key, val):
    ks = key.split("/")
    cur = rec
    for k in ks[:-1]:
        cur = cur[int(k)] if isinstance(cur, list) else cur[k]
    k = ks[-1]
    if isinstance(cur, list):
        cur[int(k)] = val
    else:
        cur[k] = val


# --------------------------------------------------------------------------- parent side


def _pool():
    return cf.ProcessPoolExecutor(max_workers=WORKERS, mp_context=multiprocessing.get_context("fork"))


def _replay_subprocess(prop, path, hashseed="0"):
    """Replay a file in a fresh interpreter; returns (exit_code, violation_class_line)."""
    env = dict(os.environ)
    env["PYTHONHASHSEED"] = hashseed
    env["VERIF_NO_REEXEC"] = "1"
    p = subprocess.run(
        [common.PY, "-m", "sim.cli", prop, "--replay", path],
        cwd=common.VERIF_DIR,
        env=env,
        capture_output=True,
        text=True,
        timeout=900,
    )
    cls = ""
    for line in p.stdout.splitlines():
        if line.startswith("REPLAY-CLASS "):
            cls = line[len("REPLAY-CLASS ") :].strip()
    return p.returncode, cls, p.stdout[-2000:] + p.stderr[-2000:]


def determinism_selftest(engine_name, prop, tier, seed, n):
    """Same run seeds executed twice in *different* worker processes and once under another
    PYTHONHASHSEED in a fresh interpreter; outcome digests must agree."""
    if n <= 0:
        return {"runs": 0, "ok": True}
    idx = list(range(n))
    with _pool() as ex:
        f1 = ex.submit(_work, engine_name, prop, tier, seed, idx, set())
        f2 = ex.submit(_work, engine_name, prop, tier, seed, list(reversed(idx)), set())
        env = dict(os.environ)
        env["PYTHONHASHSEED"] = "12345"
        env["VERIF_NO_REEXEC"] = "1"
        p = subprocess.Popen(
            [common.PY, "-m", "sim.cli", prop, "--digests", str(n), "--tier", tier],
            cwd=common.VERIF_DIR, env=env, stdout=subprocess.PIPE, stderr=subprocess.PIPE, text=True,
        )
        a = {s["i"]: s.get("digest") for s in f1.result(timeout=1800)}
        b = {s["i"]: s.get("digest") for s in f2.result(timeout=1800)}
        out, err = p.communicate(timeout=1800)
    c = {}
    for line in out.splitlines():
        if line.startswith("DIGEST "):
            _, i, d = line.split()
            c[int(i)] = d
    bad = [i for i in idx if not (a.get(i) and a.get(i) == b.get(i) == c.get(i))]
    return {
        "runs": n,
        "executions": 3 * n,
        "ok": not bad,
        "mismatching_indices": bad,
        "how": "each run seed executed in two pool workers (opposite orders) and in a fresh interpreter with PYTHONHASHSEED=12345; full outcome digests compared",
        "stderr_tail": err[-500:] if bad else "",
    }


def print_digests(engine_name, prop, tier, seed, n):
    for s in _work(engine_name, prop, tier, seed, list(range(n)), set()):
        print("DIGEST %d %s" % (s["i"], s.get("digest")))
    return 0


def replay(engine_name, prop, path):
    eng = _engine(engine_name)
    doc = json.load(open(path))
    rec = doc["record"]
    tier = doc.get("tier", "quick")
    state = eng.worker_init(prop, tier)
    try:
        oc = eng.execute(rec, state)
    finally:
        eng.worker_close(state)
    v = oc.get("violation")
    if v:
        print("REPLAY-CLASS %s|%s|%s" % (v["oracle"], v.get("cls"), v.get("step")))
        print(eng.describe(rec, oc))
        known = findings.load()
        sig = eng.signature(rec, oc)
        k = findings.match(known, prop, sig)
        if k:
            print("KNOWN-FINDING: property=%s %s" % (prop, k))
            return 0
        print("VIOLATION property=%s replay=%s" % (prop, path))
        return 1
    print("replay: no violation reproduced from %s" % path)
    return 0


def run_check(engine_name, prop, tier, seed):
    t0 = common.now()
    eng = _engine(engine_name)
    plan = eng.plan(prop, tier)
    n_runs = int(os.environ.get("VERIF_RUNS", plan["runs"]))
    chunk = plan["chunk"]
    print("check %s tier=%s seed=%d engine=%s runs=%d workers=%d root=%s" % (
        prop, tier, seed, engine_name, n_runs, WORKERS, common.sqlglot_root()))
    sys.stdout.flush()

    rdir = os.environ.get("VERIF_REPLAY_DIR") or os.path.join(common.VERIF_DIR, "replays")
    os.makedirs(rdir, exist_ok=True)
    for fn in sorted(os.listdir(rdir)):
        if fn.startswith(prop + "-") and not os.environ.get("VERIF_KEEP_REPLAYS"):
            os.unlink(os.path.join(rdir, fn))

    prep = eng.prepare(prop, tier, seed) if hasattr(eng, "prepare") else None

    selftest = determinism_selftest(engine_name, prop, tier, seed, plan.get("selftest", 0))
    if not selftest["ok"]:
        print("HARNESS-ERROR determinism self-test failed: %r" % (selftest,))
        return 2, None

    n_samples = 3
    keep = set(range(n_samples))
    chunks = [list(range(a, min(a + chunk, n_runs))) for a in range(0, n_runs, chunk)]
    summaries = []
    harness_errors = []
    deadline = t0 + plan["wall_cap"]
    skipped = 0
    t_batch = common.now()
    with _pool() as ex:
        futs = [ex.submit(_work, engine_name, prop, tier, seed, c, keep) for c in chunks]
        extra_records = (prep or {}).pop("extra_records", []) if isinstance(prep, dict) else []
        per = max(1, min(8, len(extra_records) // (2 * WORKERS)))
        for b in range(0, len(extra_records), per):
            futs.append(ex.submit(_work_records, engine_name, prop, tier, extra_records[b:b + per], b))
            chunks = chunks + [[-1]]
        for f, c in zip(futs, chunks):
            remaining = deadline - common.now()
            if remaining <= 0:
                if f.cancel():
                    skipped += len(c)
                    continue
                remaining = 120
            try:
                summaries.extend(f.result(timeout=remaining + 600))
            except Exception as e:  # BrokenProcessPool, timeout: harness problem, never a pass
                harness_errors.append("chunk %s..%s: %r" % (c[0], c[-1], e))
        batch_wall = common.now() - t_batch

        summaries.sort(key=lambda s: s["i"])
        for s in summaries:
            if s.get("harness_error"):
                harness_errors.append("run %d seed %d: %s" % (s["i"], s["run_seed"], s["harness_error"][-1500:]))

        # ---- violations: shrink (in pool workers), then confirm from the replay file in fresh interpreters
        viol = [s for s in summaries if s.get("violation")]
        known = findings.load()
        reported = []
        known_hits = {}
        shrink_budget_s = plan.get("shrink_wall", 600)
        t_shr = common.now()
        # shrink one representative per raw class first, then the rest while budget lasts
        by_cls = {}
        for s in viol:
            by_cls.setdefault((s["violation"]["oracle"], s["violation"].get("cls")), []).append(s)
        order = []
        depth = 0
        while True:
            layer = [v[depth] for v in by_cls.values() if len(v) > depth]
            if not layer:
                break
            order.extend(layer)
            depth += 1
        max_shrunk = plan.get("max_shrunk", 48)
        jobs = []
        for s in order[:max_shrunk]:
            try:
                jobs.append((s, ex.submit(_shrink, engine_name, prop, tier, s["record"], s["violation"])))
            except Exception as e:  # broken pool: a worker died (e.g. killed by the OOM killer) - harness problem
                harness_errors.append("cannot submit shrink job: %r" % (e,))
                break
        unshrunk = order[max_shrunk:]
        seen_sigs = set()
        to_confirm = []
        for s, fut in jobs:
            try:
                rec, oc, calls = fut.result(timeout=max(60, shrink_budget_s - (common.now() - t_shr)))
            except Exception as e:
                harness_errors.append("shrink of run %d failed: %r" % (s["i"], e))
                rec, oc, calls = s["record"], {"violation": s["violation"]}, 0
            sig = eng.signature(rec, oc)
            if sig in seen_sigs:
                continue
            seen_sigs.add(sig)
            path = os.path.join(rdir, "%s-%d.json" % (prop, s["run_seed"]))
            doc = {
                "property": prop, "engine": engine_name, "tier": tier, "verif_seed": seed, "run_index": s["i"],
                "run_seed": s["run_seed"], "signature": sig, "violation": oc.get("violation"),
                "original_ops": _count_ops(s["record"]), "minimised_ops": _count_ops(rec), "shrink_executions": calls,
                "record": rec,
            }
            with open(path, "w") as fh:
                json.dump(doc, fh, indent=1, sort_keys=True, default=repr)
            to_confirm.append((path, rec, oc, sig))

        # confirm every replay file twice in fresh interpreters (one under another hash seed); a few at a time
        def _confirm(item):
            path, rec, oc, sig = item
            classes = [_replay_subprocess(prop, path, hs)[1] for hs in ("0", "777")]
            want = "%s|%s|%s" % (oc["violation"]["oracle"], oc["violation"].get("cls"), oc["violation"].get("step")) if oc.get("violation") else ""
            return item, classes, want

        with cf.ThreadPoolExecutor(max_workers=max(2, WORKERS // 2)) as tex:
            confirmed = list(tex.map(_confirm, to_confirm))
        for (path, rec, oc, sig), classes, want in confirmed:
            if not all(classes) or any(c != want for c in classes):
                harness_errors.append("replay of %s did not reproduce identically: wanted %r got %r" % (path, want, classes))
                continue
            k = findings.match(known, prop, sig)
            if k:
                known_hits[sig] = k
                continue
            reported.append((path, rec, oc, sig))

        # Runs beyond the shrink cap: never silently dropped. A few are written out un-minimised; the count is printed.
        for s in unshrunk[:3]:
            path = os.path.join(rdir, "%s-%d-unshrunk.json" % (prop, s["run_seed"]))
            with open(path, "w") as fh:
                json.dump({"property": prop, "engine": engine_name, "tier": tier, "run_seed": s["run_seed"],
                           "violation": s["violation"], "record": s["record"]}, fh, indent=1, default=repr)
            reported.append((path, None, {"violation": s["violation"]}, "unshrunk"))
        if unshrunk:
            print("NOTE %d further violating runs were not minimised (cap %d); first 3 written un-minimised" % (len(unshrunk), max_shrunk))

    wall = common.now() - t0
    # ---- aggregate coverage
    aborted = [s for s in summaries if s.get("aborted")]
    good = [s for s in summaries if not s.get("harness_error") and not s.get("aborted")]
    sigs_nontrivial = set(s["sig"] for s in good if s.get("nontrivial"))
    sigs_all = set(s["sig"] for s in good)
    faults, probes, pops, extra = {}, {}, {}, {}
    steps = 0
    for s in good:
        steps += s.get("steps", 0)
        for k, v in sorted(s.get("faults", {}).items()):
            faults[k] = faults.get(k, 0) + v
        for k, v in sorted(s.get("probes", {}).items()):
            probes[k] = probes.get(k, 0) + v
        pops[s.get("population", "all")] = pops.get(s.get("population", "all"), 0) + 1
        for k, v in sorted(s.get("counters", {}).items()):
            extra[k] = extra.get(k, 0) + v
    situ = set()
    for s in good:
        situ.update(s.get("situations", []))
    samples = []
    for s in good[:n_samples]:
        if "record" in s:
            samples.append({"run_seed": s["run_seed"], "record": _trim(s["record"]),
                            "outcome": {k: s.get(k) for k in ("violation", "sig", "nontrivial", "steps", "faults", "population")}})
    zero_probes = sorted(k for k, v in probes.items() if v == 0)
    for k in zero_probes:
        print("WARNING probe %s never fired in this batch" % k)
    coverage = {
        "evaluations": len(good),
        "distinct_nontrivial": len(sigs_nontrivial),
        "distinct_signatures_all": len(sigs_all),
        "rule": eng.RULE,
        "samples": samples,
        "runs_per_hour": int(len(good) / batch_wall * 3600) if batch_wall > 0 else 0,
        "seeds_per_hour": int(len(good) / batch_wall * 3600) if batch_wall > 0 else 0,
        "simulated_steps": steps,
        "simulated_time_note": "simulated time = steps (ops for history engines, trace events for the thread scheduler); sqlglot has no clock",
        "fault_kinds_fired": faults,
        "probes": probes,
        "probes_at_zero": zero_probes,
        "populations": pops,
        "counters": extra,
        "distinct_situations": len(situ),
        "components": eng.COMPONENTS,
        "determinism_selftest": selftest,
        "known_findings_matched": sorted(known_hits.values()),
        "violations_found_raw": len(viol),
        "runs_skipped_by_wall_cap": skipped,
        "runs_discarded_by_resource_guard": {"count": len(aborted), "first": [[a["i"], a["run_seed"], a["aborted"]] for a in aborted[:10]]},
        "harness_errors": harness_errors[:5],
        "workers": WORKERS,
        "sqlglot_root": common.sqlglot_root(),
    }
    if prep is not None:
        coverage["prepare"] = prep
    if hasattr(eng, "extra_coverage"):
        coverage.update(eng.extra_coverage(good))
    ev = {
        "property_id": prop, "tier": tier, "seed": seed, "level": "exploration", "coverage": coverage,
        "assumptions": eng.ASSUMPTIONS, "wall_s": round(wall, 2), "violations": len(reported),
    }
    evdir = os.environ.get("VERIF_EVIDENCE_DIR") or os.path.join(common.VERIF_DIR, "evidence")
    os.makedirs(evdir, exist_ok=True)
    with open(os.path.join(evdir, "%s.json" % prop), "w") as fh:
        json.dump(ev, fh, indent=1, sort_keys=True, default=repr)

    for k in sorted(known_hits.values()):
        print("KNOWN-FINDING: property=%s %s" % (prop, k))
    for path, rec, oc, sig in reported:
        if rec is not None:
            print(eng.describe(rec, oc))
        else:
            print("%s violation (not minimised) [%s] %s" % (prop, oc["violation"]["oracle"], oc["violation"].get("detail", "")[:300]))
        print("signature=%s" % sig)
        print("VIOLATION property=%s replay=%s" % (prop, path))
    print("summary %s: runs=%d nontrivial_distinct=%d steps=%d violations=%d known=%d wall=%.1fs runs/h=%d faults=%s" % (
        prop, len(good), len(sigs_nontrivial), steps, len(reported), len(known_hits), wall, coverage["runs_per_hour"], json.dumps(faults, sort_keys=True)))
    if len(aborted) > max(3, len(summaries) // 50):
        harness_errors.append("%d of %d runs were discarded by the resource guard (more than 2%%)" % (len(aborted), len(summaries)))
    if reported:
        return 1, ev
    if harness_errors:
        for h in harness_errors[:5]:
            print("HARNESS-ERROR %s" % h)
        return 2, ev
    if len(good) == 0:
        print("HARNESS-ERROR no runs executed")
        return 2, ev
    return 0, ev


def _count_ops(rec):
    n = 0
    for k in ("ops", "steps", "scripts", "adds"):
        v = rec.get(k)
        if isinstance(v, list):
            n += sum(len(x) if isinstance(x, list) and k == "scripts" else 1 for x in v)
    return n


def _trim(rec, limit=40):
    r = copy.deepcopy(rec)
    for k, v in list(r.items()):
        if isinstance(v, list) and len(v) > limit:
            r[k] = v[:limit] + ["... %d more" % (len(v) - limit)]
    return r
