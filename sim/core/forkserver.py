"""Fork server ("template") used by histsim and threadsim.

A template is a fresh interpreter started with an explicit PYTHONHASHSEED (and ASLR off when setarch works) that has
imported `sqlglot` and NOTHING else of it: no dialect module, no optimizer rule module has been loaded and no sqlglot
function has been called. For every request it forks a child which executes one simulated process lifetime (a call
history, or a multi-threaded run) from exactly that cold state and reports a JSON result; the template itself never
calls into sqlglot and stays single-threaded.

Run as:  python -m sim.core.forkserver <histsim|threadsim>
Protocol: one JSON request per line on stdin, one JSON response per line on the original stdout.
"""
import json
import os
import select
import signal
import subprocess
import sys
import time
import traceback

from sim.core import common

_SETARCH = None


def _setarch_prefix():
    global _SETARCH
    if _SETARCH is None:
        try:
            ok = subprocess.run(["setarch", "-R", "true"], capture_output=True, timeout=10).returncode == 0
        except Exception:
            ok = False
        _SETARCH = ["setarch", "-R"] if ok else []
    return _SETARCH


class Template:
    def __init__(self, kind, hashseed):
        env = dict(os.environ)
        env["PYTHONHASHSEED"] = str(hashseed)
        env["PYTHONDONTWRITEBYTECODE"] = "1"
        env["VERIF_SQLGLOT_ROOT"] = common.sqlglot_root()
        self.kind = kind
        self.hashseed = hashseed
        self.proc = subprocess.Popen(
            _setarch_prefix() + [common.PY, "-X", "faulthandler", "-m", "sim.core.forkserver", kind],
            cwd=common.VERIF_DIR, env=env, stdin=subprocess.PIPE, stdout=subprocess.PIPE, stderr=subprocess.DEVNULL,
        )
        line = self.proc.stdout.readline()
        if not line.startswith(b"READY"):
            raise common.HarnessError("template did not start: %r" % line)

    def run(self, job, timeout=120):
        job = dict(job)
        job["_timeout"] = timeout
        try:
            self.proc.stdin.write((json.dumps(job) + "\n").encode())
            self.proc.stdin.flush()
            ready, _, _ = select.select([self.proc.stdout], [], [], timeout + 30)
            if not ready:
                raise common.HarnessError("template unresponsive")
            line = self.proc.stdout.readline()
            if not line:
                raise common.HarnessError("template died")
            return json.loads(line)
        except (BrokenPipeError, ValueError) as e:
            raise common.HarnessError("template protocol error: %r" % (e,))

    def close(self):
        try:
            self.proc.stdin.close()
        except Exception:
            pass
        try:
            self.proc.wait(timeout=5)
        except Exception:
            self.proc.kill()


class TemplatePool:
    """Lazily started templates keyed by (kind, hashseed); at most `cap` alive per worker."""

    def __init__(self, kind, cap=6):
        self.kind = kind
        self.cap = cap
        self.t = {}
        self.order = []

    def get(self, hashseed):
        if hashseed not in self.t:
            if len(self.order) >= self.cap:
                old = self.order.pop(0)
                self.t.pop(old).close()
            self.t[hashseed] = Template(self.kind, hashseed)
            self.order.append(hashseed)
        return self.t[hashseed]

    def run(self, hashseed, job, timeout=120):
        try:
            return self.get(hashseed).run(job, timeout)
        except common.HarnessError:
            # one restart: a killed/hung template must never turn into a pass or a violation
            t = self.t.pop(hashseed, None)
            if t is not None:
                self.order.remove(hashseed)
                t.close()
            return self.get(hashseed).run(job, timeout)

    def close(self):
        for t in self.t.values():
            t.close()
        self.t = {}
        self.order = []


# --------------------------------------------------------------------------- template side


def _child(req):
    kind = req["_kind"]
    if kind == "histsim":
        from sim.histsim import child

        return child.run(req)
    if kind == "threadsim":
        from sim.threadsim import child

        return child.run(req)
    raise ValueError(kind)


def main():
    kind = sys.argv[1]
    if kind == "threadsim":
        from sim.threadsim import seam

        seam.install()  # must happen before `import sqlglot` so that module-level locks are cooperative
    common.use_sqlglot()
    out = os.fdopen(os.dup(1), "wb", buffering=0)
    os.dup2(2, 1)  # anything a child prints goes to stderr, never into the protocol
    out.write(b"READY\n")
    stdin = sys.stdin.buffer
    while True:
        line = stdin.readline()
        if not line:
            break
        try:
            req = json.loads(line)
        except ValueError:
            out.write(b'{"harness_error": "bad request"}\n')
            continue
        req["_kind"] = kind
        timeout = req.get("_timeout", 120)
        r, w = os.pipe()
        pid = os.fork()
        if pid == 0:
            code = 0
            try:
                os.close(r)
                import faulthandler

                faulthandler.dump_traceback_later(timeout + 5, exit=True)  # children only: the watchdog is a thread
                try:
                    res = _child(req)
                except BaseException:
                    res = {"harness_error": traceback.format_exc()[-3000:]}
                data = json.dumps(res, default=repr).encode()
                off = 0
                while off < len(data):
                    off += os.write(w, data[off : off + 65536])
            except BaseException:
                code = 3
            finally:
                os._exit(code)
        os.close(w)
        chunks = []
        deadline = time.time() + timeout
        timed_out = False
        while True:
            left = deadline - time.time()
            if left <= 0:
                timed_out = True
                break
            ready, _, _ = select.select([r], [], [], left)
            if not ready:
                timed_out = True
                break
            c = os.read(r, 1 << 20)
            if not c:
                break
            chunks.append(c)
        os.close(r)
        if timed_out:
            try:
                os.kill(pid, signal.SIGKILL)
            except OSError:
                pass
        _, status = os.waitpid(pid, 0)
        data = b"".join(chunks)
        if timed_out:
            resp = {"timeout": True}
        elif not data:
            resp = {"child_died": status}
        else:
            try:
                resp = json.loads(data)
            except ValueError:
                resp = {"harness_error": "unparsable child output (%d bytes)" % len(data)}
        out.write(json.dumps(resp).encode() + b"\n")


if __name__ == "__main__":
    main()
