"""Shared helpers: seed derivation, sqlglot root selection, canonical digests.

Nothing in here draws from a PRNG or reads a clock except `now()` which is used
only *around* batches for throughput figures.
"""
import hashlib
import json
import os
import sys
import time

VERIF_DIR = os.path.dirname(os.path.dirname(os.path.dirname(os.path.abspath(__file__))))
PY = "/venv/bin/python"


def sqlglot_root():
    return os.path.realpath(os.environ.get("VERIF_SQLGLOT_ROOT", "/repo"))


def use_sqlglot():
    """Import sqlglot from VERIF_SQLGLOT_ROOT (default /repo) and assert that is what we got."""
    root = sqlglot_root()
    if sys.path[0] != root:
        sys.path.insert(0, root)
    import logging

    logging.disable(logging.CRITICAL)
    import sqlglot

    got = os.path.realpath(os.path.dirname(os.path.dirname(sqlglot.__file__)))
    if got != root:
        raise RuntimeError("harness: sqlglot imported from %s, expected %s" % (got, root))
    return sqlglot


def derive_seed(prop, seed, i, salt=""):
    h = hashlib.blake2b(("%s|%s|%s|%s" % (prop, seed, i, salt)).encode(), digest_size=8).digest()
    return int.from_bytes(h, "big") >> 1


def digest(obj):
    return hashlib.blake2b(
        json.dumps(obj, sort_keys=True, default=repr).encode(), digest_size=16
    ).hexdigest()


def short_hash(obj, n=6):
    return hashlib.blake2b(
        json.dumps(obj, sort_keys=True, default=repr).encode(), digest_size=n
    ).hexdigest()


def now():
    return time.time()


def env_seed():
    try:
        return int(os.environ.get("VERIF_SEED", "0"))
    except ValueError:
        return 0


class HarnessError(Exception):
    pass
