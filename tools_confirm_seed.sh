#!/bin/bash
# usage: confirm_seed.sh <worktree> <patch> <demo> <id>
wt=$1; patch=$2; demo=$3; id=$4
cd $wt || exit 9
git checkout -q -- sqlglot
timeout 300 env PYTHONPATH=$wt /venv/bin/python $demo >/dev/null 2>&1; without=$?
git apply $patch || { echo "PATCH FAILED"; exit 9; }
timeout 300 env PYTHONPATH=$wt /venv/bin/python $demo >/dev/null 2>&1; with=$?
suite=$(timeout 1500 /venv/bin/python -m pytest -q -p no:cacheprovider -n 8 2>&1 | tail -1)
git checkout -q -- sqlglot
echo "id=$id demo_with=$with demo_without=$without suite=[$suite]"
mkdir -p /verif/seeded/$id
cp $patch /verif/seeded/$id/patch.diff
cp $demo /verif/seeded/$id/demo.py
