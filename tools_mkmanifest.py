#!/usr/bin/env python3
"""Regenerates MANIFEST.json from the table below (kept as code so that it stays consistent)."""
import json, os

NA = {
 "C01": "pure function of (text, dialect): no schedule, clock, fault or history in the property; needs input generation + round-trip oracle (different technique). Concurrent creation of the tries it relies on is reached under C19.",
 "C02": "differential execution over generated queries x databases; a pure function of its inputs with no nondeterminism for a simulator to control.",
 "C03": "pure function of (query, schema, data); differential execution, no schedule/fault/history dimension.",
 "C04": "pure function of (string, dialect); adversarial-string generation, not simulation.",
 "C05": "quantified over input strings only; the parser cursor is a function of the input. Token deletion/duplication are input mutations, not faults. History/interleaving-dependent hangs are caught by the step budgets of C15/C19.",
 "C06": "pure function; needs an evaluator over truth assignments, no history or fault dimension.",
 "C07": "pure function of (tree, options); no schedule/fault/history.",
 "C10": "pure function of (query, schema, dialect); idempotence is a two-call metamorphic relation on one input, not a history.",
 "C11": "differential execution against a reference engine; executor is single-threaded and reads no clock inside the property's fragment.",
 "C12": "pure function; dumps live in memory, there is no storage so no torn/short-write analogue. load(dump())/pickle/copy are producers inside the C08 machine, where their outputs' invariants are checked.",
 "C13": "pure function of (text, dialect).",
 "C14": "a relation between runs of the same input under four error levels; its one stateful hazard (error_level leaking from speculative parsing on a reused Parser) is covered as a C15 history.",
 "C16": "differential against DuckDB; pure function of the expression.",
 "C17": "pure function of (query, schema, sources); its cache lives inside one call.",
 "C20": "pure function of the pair of trees; its 'never alters either input' clause is exercised as a C09 op and its hash side effect as a C08 history.",
}

CHECKS = {
 "C18": dict(engine="schemasim", technique="deterministic simulation: seeded add_table/lookup histories with injected failing registrations, failing lookups and cache evictions; oracles = history-free twin, reference model, fresh schema from final mapping; ddmin-minimised JSON replay",
   level_text="Seeded exploration of MappingSchema histories (24k quick / 400k thorough runs of 4-40 ops, swarm-configured) with fault injection (failed add_table, unparsable types, ambiguous names, cache eviction at PRNG-chosen points). Every lookup is compared with a history-free twin running the same real code, with a small dict model of the registrations, and with a MappingSchema freshly built from the SUT's final mapping. A clean batch is evidence, not proof; sensitivity is shown by the three defects it found on the pinned tree and by the mutants in mutants/.",
   design_ref="DESIGN.md 3.3", note="Trusts the dialect's identifier normalisation (used by the O2 model only), CPython, and the harness' JSON op interpreter. Universe is small by design (2 catalogs x 2 dbs x 3 tables x 3 columns)."),
}

def main():
    here = os.path.dirname(os.path.abspath(__file__))
    checks = []
    for pid, c in sorted(CHECKS.items()):
        checks.append({
            "property_id": pid,
            "quick_cmd": "./check %s --tier quick" % pid,
            "thorough_cmd": "./check %s --tier thorough" % pid,
            "evidence_file": "/verif/evidence/%s.json" % pid,
            "replay_cmd_template": "./check %s --replay {path}" % pid,
            "engine": c["engine"],
            "level_claimed": {"category": "exploration", "text": c["level_text"], "design_ref": c["design_ref"]},
            "level_note": c["note"],
            "technique": c["technique"],
        })
    engines = [
        {"name": "schemasim", "path": "sim/schemasim/engine.py", "serves_properties": ["C18"], "kind_free_text": "in-process history simulator for MappingSchema with fault injection, twin/model/fresh oracles"},
        {"name": "treesim", "path": "sim/treesim/engine.py", "serves_properties": ["C08", "C09"], "kind_free_text": "in-process history simulator over a forest of syntax trees: cache-populating ops interleaved with mutations, aborted callbacks, stack exhaustion; link/hash/frame invariants"},
        {"name": "histsim", "path": "sim/histsim/engine.py", "serves_properties": ["C15"], "kind_free_text": "process-lifetime simulator: fork-server templates per PYTHONHASHSEED, generated call histories with reused components and failing steps, run-alone reference table"},
        {"name": "threadsim", "path": "sim/threadsim/engine.py", "serves_properties": ["C19"], "kind_free_text": "deterministic thread scheduler: real threads under baton passing, sys.settrace pre-emption points, cooperative lock seam, cold-start fork template, deadlock/liveness detection"},
    ]
    engines = [e for e in engines if any(p in CHECKS for p in e["serves_properties"])]
    m = {
        "version": 1,
        "setup_cmd": "./setup.sh",
        "hooks": {
            "guard": "SQLGLOT_VERIF",
            "enable": "no hooks are needed: every seam (module-level locks created through threading.RLock, sys.settrace, fork, PYTHONHASHSEED, public constructors) already exists; checks import sqlglot from /repo's working tree (or VERIF_SQLGLOT_ROOT)",
            "baseline_off_cmd": "cd /repo && /venv/bin/python -m pytest -ra -q -p no:cacheprovider --timeout=900 --continue-on-collection-errors",
            "source_commits": [],
            "add_only": True,
        },
        "engines": engines,
        "checks": checks,
        "not_applicable": [{"property_id": k, "reason": v} for k, v in sorted(NA.items())],
        "notes": "Technique family: deterministic simulation with fault injection. See DESIGN.md. fix: commits in /repo are listed in known_findings.txt.",
    }
    json.dump(m, open(os.path.join(here, "MANIFEST.json"), "w"), indent=1)

main()
