#!/usr/bin/env python3
"""Regenerates MANIFEST.json from the table below (kept as code so that it stays consistent)."""
import json, os

NA = {
 "C01": "pure function of (text, dialect): no schedule, clock, fault or history in the property; needs input generation + round-trip oracle (different technique). Concurrent creation of the tries it relies on is reached under C19.",
 "C02": "differential execution over generated queries x databases; a pure function of its inputs with no nondeterminism for a simulator to control.",
 "C03": "pure function of (query, schema, data); differential execution, no schedule/fault/history dimension.",
 "C04": "pure function of (string, dialect); adversarial-string generation, not simulation.",
 "C05": "quantified over input strings only; the parser cursor is a function of the input. Token deletion/duplication are input mutations, not faults. History/interleaving-dependent hangs are caught by the step budgets of C15/C19.",
 "C06": "pure function; needs an evaluator over truth assignments, no history or fault dimension.",
 "C07": "pure function of (tree, options); no schedule/fault/history.",
 "C10": "pure function of (query, schema, dialect); idempotence is a two-call metamorphic relation on one input, not a history.",
 "C11": "differential execution against a reference engine; executor is single-threaded and reads no clock inside the property's fragment.",
 "C12": "pure function; dumps live in memory, there is no storage so no torn/short-write analogue. load(dump())/pickle/copy are producers inside the C08 machine, where their outputs' invariants are checked.",
 "C13": "pure function of (text, dialect).",
 "C14": "a relation between runs of the same input under four error levels; its one stateful hazard (error_level leaking from speculative parsing on a reused Parser) is covered as a C15 history.",
 "C16": "differential against DuckDB; pure function of the expression.",
 "C17": "pure function of (query, schema, sources); its cache lives inside one call.",
 "C20": "pure function of the pair of trees; its 'never alters either input' clause is exercised as a C09 op and its hash side effect as a C08 history.",
}

CHECKS = {
 "C18": dict(engine="schemasim", technique="deterministic simulation: seeded add_table/lookup histories with injected failing registrations, failing lookups, cache evictions and callers mutating the lists they were handed; oracles = history-free twin, reference model, fresh schema from final mapping; ddmin-minimised JSON replay",
   level_text="Seeded exploration of MappingSchema histories (24k quick / 400k thorough runs of 4-40 ops, swarm-configured) with fault injection (failed add_table, unparsable types, ambiguous names, cache eviction at PRNG-chosen points, in-place edits by the caller of the list column_names returned). Every lookup is compared with a history-free twin running the same real code, with a small dict model of the registrations, and with a MappingSchema freshly built from the SUT's final mapping. A clean batch is evidence, not proof; sensitivity is shown by the four defects it found on the pinned tree and by the mutants in mutants/.",
   design_ref="DESIGN.md 3.3", note="Trusts the dialect's identifier normalisation (used by the O2 model only), CPython, and the harness' JSON op interpreter. Universe is small by design (2 catalogs x 2 dbs x 3 tables x 3 columns)."),
 "C08": dict(engine="treesim", technique="deterministic simulation: seeded edit histories over a forest of syntax trees interleaving cache-populating ops with mutations, producers and optimizer rules, with injected aborted callbacks / failing rules / unparsable builder arguments; link, no-sharing, hash-recomputation, equality and frame invariants after every step; ddmin-minimised JSON replay",
   level_text="Seeded exploration (9.6k quick / 160k thorough histories of 8-90 ops, swarm-configured op mix) of the per-node memo (_hash) and back-link state under public tree operations: set/append/replace/pop/transform/replace_children/replace_tree/set_kwargs/builders(copy=False)/comments/meta, in-place wrapping through holder.set(key, Wrapper(this=child)) and its undo, parse of ~12k corpus statements in their dialects, copy/deepcopy/serde/pickle, all 14 optimizer rules applied in place to parser-reachable trees (30% of the runs are optimizer-shaped: a seeded query grammar with joins of every kind, multi-key join conditions, colliding alias names, correlated subqueries, DNF filters; qualify, then rules in order or fanned out), diff on subtrees. After EVERY step: I1 child records exactly its parent/arg_key/index, I2 no node stored twice (within/across trees/pool), I3 every cached hash equals the real hash function on a cache-free clone, I4 tree == clone and SQL-changed => != snapshot, I5 other trees keep a strict identity fingerprint. Faults: callback abort at the k-th node, rule raising mid-rewrite, ParseError in builders. Evidence, not proof; sensitivity shown by the 20-odd defects found on the pinned tree and by mutants/.",
   design_ref="DESIGN.md 3.4", note="Trusts CPython, the harness' op interpreter and clone(); optimizer rules are applied only to trees that round-trip through the parser in the dialect given (rules promise nothing for malformed trees); equality oracle is one-directional (see DESIGN)."),
 "C09": dict(engine="treesim", technique="deterministic simulation: same tree-forest machine, op mix dominated by calls documented not to mutate (sql x 33 dialects x options, optimize, qualify/annotate of a copy, diff, lineage, transform/builders with copy=True - every public method that has a copy parameter, found by reflection, and the builder functions documented to copy their Expression arguments, called with live nodes -, generation started at every node of a tree, expand (string, tree and callable sources), replace_tables, replace_placeholders, operators, copy/deepcopy) interleaved with edits; strict identity fingerprint + SQL of every argument before/after, also when the call raises; injected stack exhaustion, callback aborts, ParseErrors; ddmin replay",
   level_text="Seeded exploration (9.6k quick / 160k thorough histories) in which every non-mutating call is bracketed by a strict fingerprint (node identities, parent/arg_key/index, scalars, comments, types, meta) and the base-dialect SQL of each argument tree, including when the call fails with UnsupportedError/OptimizeError/ParseError or with a RecursionError injected at a PRNG-chosen stack depth; copies and builder results must be equal (copies), structurally identical, node-disjoint and share no mutable object (meta dicts and the values in them, comment lists, type annotations) with the tree they were made from, and later edits of either side must leave the other's fingerprint unchanged (frame condition). Evidence, not proof.",
   design_ref="DESIGN.md 3.5", note="Trusts CPython and the harness; trees come from the corpus (fixtures + ~12k dialect statements + built-ins), not from an exhaustive grammar; cache state alone is not part of the C09 fingerprint (stale caches are C08's I3)."),
 "C15": dict(engine="histsim", technique="deterministic simulation of process lifetimes: fork-server templates per PYTHONHASHSEED (ASLR off), generated call histories over fresh and reused Tokenizer/Parser/Generator/Dialect/MappingSchema instances from a cold interpreter, with failing earlier steps, injected stack exhaustion, gc and address-space perturbation; oracle = the same call alone in a cold process under two hash seeds; ddmin replay",
   level_text="Seeded exploration (1.2k quick / 12k thorough process lifetimes of 3-60 calls each, 4 / 32 hash seeds) from a cold interpreter (no dialect or rule module loaded), so dialect import order, metaclass side effects and first-use cache fills are part of the history; 40% of the histories replay a focus group (one reused Parser/Generator/Tokenizer configuration fed with statements that touch the same per-instance state). Every step is compared byte-for-byte with a reference table computed per call signature ALONE in its own cold child, under PYTHONHASHSEED 0 and 4242 (which must agree). Faults: ParseError/TokenError/UnsupportedError/OptimizeError in earlier steps on components reused afterwards (incl. statements cut short at a token boundary), generation aborted at a PRNG-chosen node of a reused generator, RecursionError injected at a PRNG-chosen margin, gc.collect/disable, garbage pre-allocation shifting object addresses. Words that a history adds to class-level tables of the base classes are turned into output probes (leak-probe oracle). Evidence, not proof.",
   design_ref="DESIGN.md 3.2", note="Outcomes of failing calls are the exception class, the structured ParseError.errors (description, position, context excerpts) and the message text of sqlglot's own errors; the AST-diff op is excluded as the property excludes it; references and histories share the same code, so a defect that changes every execution identically is invisible (that is C01..C14's subject, not C15's)."),
 "C19": dict(engine="threadsim", technique="deterministic thread-schedule simulation: real threads under baton passing with sys.settrace line/call events of sqlglot's own frames as pre-emption points (importlib atomic between its lock operations), cooperative lock seam, cold-start fork template; seeded strategies (random-walk gaps, PCT depth 1-3, cold-code bias, publication bias, serial), a systematic per-dialect / per-entry-point sweep in every batch, gc and starvation faults; oracles = run-alone reference, no-raise, exactly-once loading, post-run health, deadlock/step-budget liveness; recorded schedule as replay file, ddmin over switch points",
   level_text="Seeded search over interleavings (1.0k random + 294 systematic runs quick / 14k + 621 thorough, 2-8 threads x 1-4 calls, ~0.6 G trace events per quick batch). The systematic part gives EVERY dialect two cold first-use runs scheduled by publication bias (hand over the moment a registry grows) and three write-focus contention runs on its generator plus one with a function zoo (about 520 Func classes, literal arguments differing per thread), and every small public entry point (time formats, JSON paths, identifier normalisation, table/type parsing, tokenizing, dialect settings, shared-schema lookups) twelve micro-contention runs in which one thread streams thousands of distinct arguments while two ask for popular ones. Half of the runs start from a cold interpreter (very first use of dialects, optimizer sub-modules, generator dispatch caches), half are warm with gaps of 3-1000 trace events, many of them same-call contention (all threads run one call), which exposes per-call scratch state kept at class or module level. Exactly one thread runs at a time; the simulator decides every hand-over from one PRNG value and records it, so a run is replayable from its schedule and minimisable (typical minimal schedule: 1-3 pre-emptions). Threads that would block on a lock are parked in the simulator, so lock-order deadlocks are detected as 'all live threads parked' with the stacks. Evidence, not proof; found 5 genuine defects on the pinned tree (race on the dialect registry, ABBA deadlock between the dialects import lock and importlib's module lock, Athena class usable before its module finished importing, CONNECT BY editing a class-level parser table, Dialect.classes never completing its lazy loading).",
   design_ref="DESIGN.md 3.1", note="Pre-emption granularity is source lines / function entry with C-level operations atomic (GIL semantics); locks are stubbed by cooperative wrappers; CPython's import machinery is trusted and atomic between its lock operations; pure-Python package only."),
}

def main():
    here = os.path.dirname(os.path.abspath(__file__))
    checks = []
    for pid, c in sorted(CHECKS.items()):
        checks.append({
            "property_id": pid,
            "quick_cmd": "./check %s --tier quick" % pid,
            "thorough_cmd": "./check %s --tier thorough" % pid,
            "evidence_file": "/verif/evidence/%s.json" % pid,
            "replay_cmd_template": "./check %s --replay {path}" % pid,
            "engine": c["engine"],
            "level_claimed": {"category": "exploration", "text": c["level_text"], "design_ref": c["design_ref"]},
            "level_note": c["note"],
            "technique": c["technique"],
        })
    engines = [
        {"name": "schemasim", "path": "sim/schemasim/engine.py", "serves_properties": ["C18"], "kind_free_text": "in-process history simulator for MappingSchema with fault injection, twin/model/fresh oracles"},
        {"name": "treesim", "path": "sim/treesim/engine.py", "serves_properties": ["C08", "C09"], "kind_free_text": "in-process history simulator over a forest of syntax trees: cache-populating ops interleaved with mutations, aborted callbacks, stack exhaustion; link/hash/frame invariants"},
        {"name": "histsim", "path": "sim/histsim/engine.py", "serves_properties": ["C15"], "kind_free_text": "process-lifetime simulator: fork-server templates per PYTHONHASHSEED, generated call histories with reused components and failing steps, run-alone reference table"},
        {"name": "threadsim", "path": "sim/threadsim/engine.py", "serves_properties": ["C19"], "kind_free_text": "deterministic thread scheduler: real threads under baton passing, sys.settrace pre-emption points, cooperative lock seam, cold-start fork template, deadlock/liveness detection"},
    ]
    engines = [e for e in engines if any(p in CHECKS for p in e["serves_properties"])]
    m = {
        "version": 1,
        "setup_cmd": "./setup.sh",
        "hooks": {
            "guard": "SQLGLOT_VERIF",
            "enable": "no hooks are needed: every seam (module-level locks created through threading.RLock, sys.settrace, fork, PYTHONHASHSEED, public constructors) already exists; checks import sqlglot from /repo's working tree (or VERIF_SQLGLOT_ROOT)",
            "baseline_off_cmd": "cd /repo && /venv/bin/python -m pytest -ra -q -p no:cacheprovider --timeout=900 --continue-on-collection-errors",
            "source_commits": [],
            "add_only": True,
        },
        "engines": engines,
        "checks": checks,
        "not_applicable": [{"property_id": k, "reason": v} for k, v in sorted(NA.items())],
        "notes": "Technique family: deterministic simulation with fault injection. See DESIGN.md. fix: commits in /repo are listed in known_findings.txt.",
    }
    json.dump(m, open(os.path.join(here, "MANIFEST.json"), "w"), indent=1)

main()
