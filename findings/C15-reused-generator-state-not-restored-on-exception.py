"""Manual reproduction (not a check replay file): two pieces of per-Generator state were switched for the duration of a
call and not switched back when the call raised. Reported by the sub-agent that wrote seeded/c15-case-sensitive-lru-cache;
confirmed by hand on the tree before the two fix: commits; histsim's SQL-only workload cannot build these trees, so the
check did not find them (see DESIGN.md 9.4). Exits 1 while either defect is present."""
import sys

from sqlglot import exp, parse_one
from sqlglot.dialects.dialect import Dialect
from sqlglot.errors import ErrorLevel, UnsupportedError

bad = 0
d = Dialect.get_or_raise("sqlite")
g = d.generator(identify=True, unsupported_level=ErrorLevel.IMMEDIATE)
t = parse_one("CREATE FUNCTION f(a INT) AS 1", read="postgres")
t.this.append("expressions", parse_one("b'abc'", read="bigquery"))
try:
    g.generate(t)
except UnsupportedError:
    pass
a, b = g.generate(parse_one("SELECT a FROM t")), d.generator(identify=True).generate(parse_one("SELECT a FROM t"))
print("no_identify:", a, "| fresh:", b)
bad += a != b

d = Dialect.get_or_raise("bigquery")
g = d.generator(unsupported_level=ErrorLevel.IMMEDIATE)
t = parse_one("SELECT JSON_VALUE(x, '$.a')", read="bigquery")
t.selects[0].this.replace(exp.Try(this=exp.column("x")))
try:
    g.generate(t)
except UnsupportedError:
    pass
q = parse_one("""SELECT JSON_EXTRACT(x, '$."a b"')""", read="bigquery")
a, b = g.generate(q), d.generator().generate(q)
print("json path quoting:", a, "| fresh:", b)
bad += a != b
sys.exit(1 if bad else 0)
