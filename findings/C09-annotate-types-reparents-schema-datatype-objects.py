"""Manual reproduction (not a check replay): annotate_types / optimize embedded the caller's schema DataType objects (and other
nodes' type objects) into new compound types, re-parenting them. Reported by the round-4 C09 audit sub-agent; confirmed by
hand before the fix: commit. Exits 1 while the defect is present."""
import sys

from sqlglot import exp, parse_one
from sqlglot.optimizer import optimize
from sqlglot.schema import MappingSchema

bad = 0
for dialect, query in (("bigquery", "SELECT x FROM x"), ("bigquery", "SELECT APPROX_TOP_COUNT(a, 2) FROM x"), ("duckdb", "SELECT [s] FROM x")):
    ddl = parse_one("CREATE TABLE x (a INT, s STRUCT<f INT>)", read="bigquery")
    cols = {c.name: c.kind for c in ddl.find_all(exp.ColumnDef) if isinstance(c.parent, exp.Schema)}
    before = [(id(k), id(k.parent), k.arg_key) for k in cols.values()]
    res = optimize(parse_one(query, read=dialect), schema=MappingSchema({"x": cols}, dialect=dialect), dialect=dialect)
    after = [(id(k), id(k.parent), k.arg_key) for k in cols.values()]
    shared = any(any(n is k for k in cols.values()) for s in res.selects if s.type for n in s.type.walk())
    print(dialect, query, "| schema nodes re-parented:", before != after, "| result shares a node with the schema:", shared)
    bad += before != after or shared
sys.exit(1 if bad else 0)
