#!/usr/bin/env python3
"""Runs the registered quick checks against the seeded changes under seeded/<id>/ (patch.diff + meta.json).

Each patch is applied to a scratch copy of /repo/sqlglot outside /repo and /verif (VERIF_SQLGLOT_ROOT), the check of the
property it breaks is run, and the scratch copy is removed. Usage: tools_seeded.py [id ...] [--tier quick|thorough] [--all-checks]
"""
import json
import os
import shutil
import subprocess
import sys
import tempfile
import time

HERE = os.path.dirname(os.path.abspath(__file__))


def main():
    args = [a for a in sys.argv[1:] if not a.startswith("--")]
    tier = "thorough" if "--tier=thorough" in sys.argv else "quick"
    ids = args or sorted(d for d in os.listdir(os.path.join(HERE, "seeded")) if os.path.isdir(os.path.join(HERE, "seeded", d)))
    rows = []
    for sid in ids:
        sdir = os.path.join(HERE, "seeded", sid)
        meta = json.load(open(os.path.join(sdir, "meta.json")))
        props = ["C08", "C09", "C15", "C18", "C19"] if "--all-checks" in sys.argv else [meta["property"]]
        scratch = tempfile.mkdtemp(prefix="sgseed-", dir="/tmp")
        try:
            subprocess.run(["rsync", "-a", "--exclude", "__pycache__", "/repo/sqlglot", scratch + "/"], check=True)
            p = subprocess.run(["patch", "-p1", "-d", scratch, "-i", os.path.join(sdir, "patch.diff")], capture_output=True, text=True)
            if p.returncode != 0:
                rows.append((sid, meta["property"], "PATCH-FAILED", p.stdout[-200:]))
                continue
            for prop in props:
                env = dict(os.environ, VERIF_SQLGLOT_ROOT=scratch, VERIF_EVIDENCE_DIR=scratch + "/evidence", VERIF_REPLAY_DIR=scratch + "/replays")
                t0 = time.time()
                r = subprocess.run([os.path.join(HERE, "check"), prop, "--tier", tier], cwd=HERE, env=env, capture_output=True, text=True)
                first = next((l for l in r.stdout.splitlines() if " violation [" in l), "")
                nv = sum(1 for l in r.stdout.splitlines() if l.startswith("VIOLATION"))
                rows.append((sid, prop, "DETECTED" if r.returncode == 1 and nv else "missed(exit=%d)" % r.returncode, "%.0fs %s" % (time.time() - t0, first[:220])))
                print(rows[-1])
                sys.stdout.flush()
        finally:
            shutil.rmtree(scratch, ignore_errors=True)
    with open(os.path.join(HERE, "seeded", "last_results.json"), "w") as fh:
        json.dump(rows, fh, indent=1)


main()
